"""Source audits: side conditions of frame arguments that rustc discharges for ALL programs.

C08 (immutability): in safe Rust a `Vec<usize>` field and an `Rc<Vec<Float>>` without interior
mutability cannot be written through `&self`, and the contents of a shared `Rc` cannot be written
at all. The obligations below re-establish, from /repo's current text, that the premises of that
argument still hold; rustc (the type and borrow checker, run by every build of the checks) is the
back end that discharges the frame condition itself. A failed item is a VIOLATION naming the item
(`no-failing-input-found` unless a bounded instance also fails).

Each audit function returns a list of {name, status: verified|failed|undecided, detail}.
"""
import os
import re
import sys

sys.path.insert(0, os.path.join(os.path.dirname(os.path.abspath(__file__)), "lib"))
from rustlex import lex, ExtractError  # noqa: E402


def _read(repo, rel):
    return open(os.path.join(repo, rel)).read()


def _strip_comments(src):
    """source text with comments and string literals blanked (token-accurate)."""
    out = []
    for t in lex(src):
        out.append(t.text if t.kind != "str" else '""')
    return " ".join(out)


def _rs_files(repo):
    res = []
    for d, _, fs in os.walk(os.path.join(repo, "src")):
        for f in fs:
            if f.endswith(".rs"):
                res.append(os.path.relpath(os.path.join(d, f), repo))
    return sorted(res)


def _item(name, ok, detail):
    return {"name": name, "status": "verified" if ok else "failed", "detail": detail,
            "reason": None if ok else detail, "wall_s": 0.0}


def _struct_fields(src, name):
    m = re.search(r"pub struct %s\s*\{(.*?)\n\}" % name, src, flags=re.S)
    if not m:
        return None
    fields = {}
    for line in m.group(1).splitlines():
        line = line.split("//")[0].strip().rstrip(",")
        if not line:
            continue
        mm = re.match(r"(pub(\([a-z]+\))?\s+)?(\w+)\s*:\s*(.+)$", line)
        if mm:
            fields[mm.group(3)] = (mm.group(4).strip(), bool(mm.group(1)))
    return fields


def audit_immutability(repo):
    items = []
    try:
        mod = _read(repo, "src/array/mod.rs")
        fields = _struct_fields(mod, "Array")
        if fields is None:
            return [{"name": "audit:Array struct found", "status": "undecided", "reason": "struct Array not found", "detail": ""}]
        dt, dpub = fields.get("dimensions", ("?", False))
        vt, vpub = fields.get("values", ("?", False))
        items.append(_item("audit:C08 `dimensions` is a plain private Vec<usize> (no interior mutability)",
                           dt == "Vec<usize>" and not dpub, "dimensions: %s pub=%s" % (dt, dpub)))
        items.append(_item("audit:C08 `values` is a private Rc<Vec<Float>> (shared, no interior mutability)",
                           vt == "Rc<Vec<Float>>" and not vpub, "values: %s pub=%s" % (vt, vpub)))
        # no unsafe outside blas.rs; no escape hatches on Rc
        bad_unsafe, bad_escape, mut_self = [], [], []
        for rel in _rs_files(repo):
            if rel.endswith("blas.rs"):
                continue
            code = _strip_comments(_read(repo, rel))
            if re.search(r"\bunsafe\b", code):
                bad_unsafe.append(rel)
            for pat in (r"Rc\s*::\s*get_mut", r"Rc\s*::\s*make_mut", r"Rc\s*::\s*as_ptr", r"Rc\s*::\s*from_raw", r"Rc\s*::\s*into_raw",
                        r"\btransmute\b", r"get_mut_unchecked", r"\bUnsafeCell\b", r"ptr\s*::\s*write", r"as_mut_ptr", r"\bstatic\s+mut\b"):
                if re.search(pat, code):
                    bad_escape.append("%s:%s" % (rel, pat))
        items.append(_item("audit:C08 no `unsafe` outside the feature-gated BLAS wrapper", not bad_unsafe, "files with unsafe: %s" % bad_unsafe))
        items.append(_item("audit:C08 no Rc::get_mut / make_mut / raw-pointer / transmute / UnsafeCell escape hatch", not bad_escape,
                           "found: %s" % bad_escape))
        # no `&mut self` method in impl Array assigns self.values / self.dimensions, except the private builders
        # (with_children / with_backward_op take `mut self` by value on a fresh result)
        code = _strip_comments(mod)
        assigns = re.findall(r"self\s*\.\s*(values|dimensions)\s*(?:=[^=]|\.\s*(?:push|extend|clear|truncate|insert|remove|swap|iter_mut|as_mut|sort|reverse|resize|drain|pop|append)\b)", code)
        items.append(_item("audit:C08 no method assigns or mutates self.values / self.dimensions", not assigns, "assignments: %s" % assigns))
        for rel in ("src/array/arithmetic.rs", "src/array/linalg.rs", "src/array/image.rs", "src/array/nonlinearity.rs"):
            c2 = _strip_comments(_read(repo, rel))
            a2 = re.findall(r"\.\s*(values|dimensions)\s*(?:=[^=]|\.\s*(?:push|extend|clear|truncate|insert|remove|swap|iter_mut|as_mut|sort|reverse|resize|drain|pop|append)\b)", c2)
            items.append(_item("audit:C08 %s does not assign or mutate any array's values / dimensions" % rel, not a2, "found: %s" % a2))
        # public API exposes values/dimensions only as shared slices
        pubs = re.findall(r"pub fn (\w+)\s*\(([^)]*)\)\s*->\s*([^\{]+)\{", mod)
        leaks = [n for n, args, ret in pubs if re.search(r"&\s*mut\s*(\[|Vec)", ret) or re.search(r"RefMut<\s*(Vec|\[)", ret)]
        items.append(_item("audit:C08 no public accessor returns a mutable view of values / dimensions", not leaks, "leaks: %s" % leaks))
        # optimizer replaces parameters (`*p = Array::from(..)`) and never writes through them
        gd = _strip_comments(_read(repo, "src/optimizer/gd.rs"))
        repl = re.search(r"\*\s*p\s*=\s*Array\s*::\s*from", gd) is not None
        items.append(_item("audit:C08 the optimizer installs a new array (`*p = Array::from(..)`) instead of mutating the old one", repl,
                           "replacement assignment found: %s" % repl))
    except (OSError, ExtractError) as e:
        items.append({"name": "audit:C08 source readable", "status": "undecided", "reason": str(e), "detail": ""})
    return items


def audit_handles(repo):
    """C12: nothing observes handle identity except the two documented Rc::try_unwrap sites; no Drop impl."""
    items = []
    try:
        sites = []
        drops = []
        cnt = []
        for rel in _rs_files(repo):
            if rel.endswith("blas.rs"):
                continue
            src = _read(repo, rel)
            # test modules are not part of the library's behaviour
            code = _strip_comments(src.split("#[cfg(test)]")[0])
            for m in re.finditer(r"Rc\s*::\s*try_unwrap", code):
                sites.append(rel)
            if re.search(r"impl\s+Drop\s+for", code):
                drops.append(rel)
            if re.search(r"Rc\s*::\s*(strong_count|weak_count|ptr_eq|is_unique)", code):
                cnt.append(rel)
        items.append(_item("audit:C12 Rc::try_unwrap only at the two documented sites of src/array/mod.rs (copy fallback; sole-owner conversion)",
                           sorted(sites) == ["src/array/mod.rs", "src/array/mod.rs"], "sites: %s" % sites))
        items.append(_item("audit:C12/C18 no Drop impl in the crate (dropping a handle only decrements counts)", not drops, "Drop impls: %s" % drops))
        items.append(_item("audit:C12 no reference-count / pointer-identity inspection in library code", not cnt, "files: %s" % cnt))
        mod = _read(repo, "src/array/mod.rs")
        f = _struct_fields(mod, "Array") or {}
        shared = all(f.get(k, ("", False))[0].startswith("Rc<") for k in ("values", "children", "consumer_count", "delta", "gradient"))
        items.append(_item("audit:C12 every graph/gradient field of Array is an Rc (shared by clones), flags are per-handle Cells",
                           shared and f.get("is_tracked", ("",))[0] == "Cell<bool>" and f.get("keep_gradient", ("",))[0] == "Cell<bool>",
                           "fields: %s" % {k: v[0] for k, v in f.items()}))
    except OSError as e:
        items.append({"name": "audit:C12 source readable", "status": "undecided", "reason": str(e), "detail": ""})
    return items
