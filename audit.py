"""Source audits (frame / identity side conditions re-checked from /repo's text on every run)."""
