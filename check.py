#!/usr/bin/env python3
"""Entry point of every registered check:  check.py <property id> [--tier quick|thorough]

Runs the Verus units (unbounded contracts on mechanically extracted real functions), the Kani
instances (bounded contracts on the real crate, concrete shape / graph classes, symbolic values)
and the source audits a property depends on, classifies the results (DESIGN.md section 8),
writes evidence/<id>.json, replay files for violations, and exits
   0  every obligation discharged (known findings are printed as KNOWN-FINDING lines)
   1  at least one obligation that is not a listed known finding failed -> VIOLATION line(s)
   2  undecided (anchor lost, unsupported construct, time/memory limit, build failure)
"""
import argparse
import hashlib
import json
import os
import sys
import tempfile
import time
import shutil
from concurrent.futures import ThreadPoolExecutor

HERE = os.path.dirname(os.path.abspath(__file__))
sys.path.insert(0, os.path.join(HERE, "lib"))

import verus_unit as VU          # noqa: E402
import kani_unit as KU           # noqa: E402
import props                     # noqa: E402
import audit                     # noqa: E402

REPO = os.environ.get("VERIF_REPO", "/repo")
# developer runs against a mutated copy write their evidence / replays elsewhere
OUT = os.environ.get("VERIF_OUT", HERE)


def load_known():
    p = os.path.join(HERE, "known_findings.json")
    if not os.path.exists(p):
        return []
    return json.load(open(p)).get("findings", [])


def run_verus_units(unit_names, float_ty, workdir):
    """Each unit: real proof + one must-fail twin per contracted function (vacuity guard)."""
    jobs = []
    for u in unit_names:
        spec = VU.UnitSpec(os.path.join(HERE, "verus", "contracts", u + ".spec"))
        jobs.append((u, spec, None))
        for sec in spec.fns:
            if sec.contract and "ensures" in sec.contract:
                nm = sec.name
                if sec.lifted_sig:
                    import re
                    nm = re.search(r"fn\s+(\w+)", sec.lifted_sig).group(1)
                jobs.append((u, spec, nm))

    def one(job):
        u, spec, twin = job
        r = {"unit": u, "twin_of": twin, "engine": "verus", "float": float_ty}
        try:
            src, infos = VU.build_unit(REPO, spec, float_ty=float_ty, must_fail=twin)
        except (VU.ExtractError, FileNotFoundError, ValueError) as e:
            r.update(status="undecided", reason="extraction: %s" % e, wall_s=0.0, infos=[])
            return r
        path = os.path.join(workdir, "%s%s_%s.rs" % (u, "__twin_" + twin if twin else "", float_ty))
        open(path, "w").write(src)
        res = VU.run_verus(path)
        r.update(infos=infos, status=res["status"], reason=res.get("reason"), wall_s=res["wall_s"],
                 functions=res.get("functions", []), cmd=res["cmd"].replace(workdir, "<generated>"),
                 failed=VU.failed_obligations(res.get("stderr", "")) if res["status"] == "failed" else [],
                 stderr_tail=res.get("stderr", "")[-3000:] if res["status"] != "verified" else "")
        r["generated_sha256"] = hashlib.sha256(src.encode()).hexdigest()
        return r

    with ThreadPoolExecutor(max_workers=8) as ex:
        return list(ex.map(one, jobs))


def main():
    ap = argparse.ArgumentParser()
    ap.add_argument("prop")
    ap.add_argument("--tier", default=os.environ.get("VERIF_TIER", "quick"), choices=["quick", "thorough"])
    ap.add_argument("--jobs", type=int, default=int(os.environ.get("VERIF_JOBS", "12")))
    ap.add_argument("--only", default=None, help="debug: run only instances whose name contains this")
    args = ap.parse_args()
    seed = int(os.environ.get("VERIF_SEED", "0") or 0)
    t0 = time.time()
    P = props.PROPS[args.prop]
    known = [k for k in load_known() if k.get("property") == args.prop and k.get("status") == "open"]
    known_by_inst = {k["obligation"]: k for k in known}

    results = []          # every obligation: dict(kind, name, status, ...)
    violations = []       # (obligation name, replay path, has_input)
    undecided = []

    workdir = tempfile.mkdtemp(prefix="corgi_verif_v_", dir=os.environ.get("VERIF_SCRATCH", "/tmp"))
    replay_dir = os.path.join(OUT, "replays", args.prop)
    try:
        # ---------------------------------------------------------------- audits (C08/C12 ...)
        for a in P.get("audits", []):
            for item in getattr(audit, a)(REPO):
                item["kind"] = "audit"
                results.append(item)

        # ---------------------------------------------------------------- Verus units
        floats = P.get("floats", ["f64"])
        vres = []
        for fl in floats:
            vres += run_verus_units(P.get("verus", []), fl, workdir)
        for r in vres:
            name = "%s%s[%s]" % (r["unit"], "/must-fail-twin:" + r["twin_of"] if r["twin_of"] else "", r["float"])
            if r["twin_of"]:
                # vacuity guard: the twin must be REJECTED
                if r["status"] == "failed":
                    st = "verified"
                elif r["status"] == "verified":
                    st = "undecided"
                    r["reason"] = "vacuity guard: `ensures false` twin verified (contradictory precondition or axioms)"
                else:
                    st = "undecided"
                results.append({"kind": "verus-vacuity", "name": name, "status": st, "reason": r.get("reason"),
                                "wall_s": r["wall_s"]})
            else:
                results.append({"kind": "verus", "name": name, "status": r["status"], "reason": r.get("reason"),
                                "wall_s": r["wall_s"], "functions": r.get("functions"), "infos": r.get("infos"),
                                "failed": r.get("failed"), "cmd": r.get("cmd"), "stderr_tail": r.get("stderr_tail"),
                                "generated_sha256": r.get("generated_sha256")})

        # ---------------------------------------------------------------- Kani instances
        kres_all = []
        for feats in P.get("kani_features", [[]]):
            insts = P["instances"](args.tier) if "instances" in P else []
            if args.only:
                insts = [i for i in insts if args.only in i.name]
            if not insts:
                continue
            with KU.Scratch(repo=REPO, features=feats) as sc:
                sc.prepare(KU.build_module(P["kani_groups"], insts))
                ok = sc.codegen()
                if not ok:
                    results.append({"kind": "kani-build", "name": "cargo kani --only-codegen %s" % feats,
                                    "status": "undecided", "reason": "scratch crate does not build under Kani",
                                    "log": sc.codegen_log[-2500:]})
                    continue
                kres = KU.run_instances(sc, insts, jobs=args.jobs)
                tag = "[f32]" if "f32" in feats else ""
                for inst, r in zip(insts, kres):
                    r["kind"] = "kani"
                    r["name"] = r["name"] + tag
                    r["codegen_s"] = sc.codegen_s
                    if r["status"] == "failed" and (r["name"] not in known_by_inst):
                        # counterexample -> native replay against the real code
                        chk = r["failed_checks"][0]["check"] if r["failed_checks"] else None
                        rp = None
                        if chk and chk != inst.name:
                            t = sc.run_instance(inst, trace_property=chk)
                            inputs = t.get("trace_inputs") or []
                            r["counterexample_inputs"] = inputs
                            rp = sc.replay_native(inst.name, inputs)
                        elif chk == inst.name:
                            # "must refuse" contract: any input in the class returns; replay with zeros
                            r["counterexample_inputs"] = []
                            rp = sc.replay_native(inst.name, [])
                        r["replay"] = rp
                    results.append(r)
                kres_all += kres
    finally:
        shutil.rmtree(workdir, ignore_errors=True)

    # -------------------------------------------------------------------- classification
    os.makedirs(replay_dir, exist_ok=True)
    for r in results:
        nm = r["name"]
        if r["status"] == "failed":
            if nm in known_by_inst:
                k = known_by_inst[nm]
                print("KNOWN-FINDING: property=%s %s %s" % (args.prop, nm, k["what"]))
                r["known_finding"] = True
                continue
            path = os.path.join(replay_dir, nm.replace("/", "_").replace(":", "_").replace("[", "_").replace("]", "") + ".json")
            has_input = bool(r.get("replay") and r["replay"].get("reproduced"))
            json.dump({"property": args.prop, "obligation": nm, "engine": r["kind"],
                       "contract": r.get("contract") or r.get("descr"),
                       "failed": r.get("failed_checks") or r.get("failed") or r.get("reason"),
                       "counterexample_inputs": r.get("counterexample_inputs"),
                       "replay": r.get("replay"),
                       "verifier_output": r.get("stderr_tail"),
                       "how_to_replay": (r.get("replay") or {}).get("cmd"),
                       "note": None if has_input else "no-failing-input-found: the obligation was discharged on the "
                               "unchanged tree and fails on this one; the verifier gives no (replayable) counterexample"},
                      open(path, "w"), indent=1)
            violations.append((nm, path, has_input))
        elif r["status"] == "undecided":
            undecided.append(r)

    wall = time.time() - t0
    write_evidence(args, P, results, violations, undecided, wall, seed)

    for nm, path, has_input in violations:
        print("VIOLATION property=%s replay=%s obligation=%s%s" % (args.prop, path, nm, "" if has_input else " no-failing-input-found"))
    n_ok = sum(1 for r in results if r["status"] == "verified")
    print("%s tier=%s: %d obligations, %d discharged, %d violated, %d known findings, %d undecided, %.0fs"
          % (args.prop, args.tier, len(results), n_ok, len(violations),
             sum(1 for r in results if r.get("known_finding")), len(undecided), wall))
    for r in undecided:
        print("UNDECIDED %s: %s" % (r["name"], r.get("reason")))
    if violations:
        sys.exit(1)
    if undecided:
        sys.exit(2)
    sys.exit(0)


def write_evidence(args, P, results, violations, undecided, wall, seed):
    proof_kinds = ("verus",)
    unb = [r for r in results if r["kind"] in proof_kinds]
    bnd = [r for r in results if r["kind"] == "kani"]
    aud = [r for r in results if r["kind"] == "audit"]
    vac = [r for r in results if r["kind"] == "verus-vacuity"]
    # obligations of the unbounded kind are counted per verified Verus function
    unb_obl = sum(len([f for f in (r.get("functions") or [])]) for r in unb)
    unb_dis = sum(len([f for f in (r.get("functions") or []) if f.get("success")]) for r in unb if r["status"] == "verified")
    solver_ms = sum(f.get("time", 0) for r in unb for f in (r.get("functions") or []))
    samples = []
    for r in unb[:3]:
        samples.append({"engine": "verus", "unit": r["name"], "status": r["status"],
                        "functions_under_contract": [i.get("lifted_name") or i["fn"] for i in (r.get("infos") or [])],
                        "source_spans": [{"fn": i["fn"], "lines": i["span"], "sha256": i["sha256"],
                                          "r1_rewrites": i["r1_rewrites"]} for i in (r.get("infos") or [])],
                        "smt_functions": r.get("functions")})
    for r in bnd[:6]:
        samples.append({"engine": "kani/cbmc", "instance": r["name"], "status": r["status"], "contract": r.get("contract") or r.get("descr"),
                        "function": r.get("function"), "bounds": r.get("bounds"), "checks": r.get("checks"), "vccs": r.get("vccs"),
                        "symex_s": r.get("symex_s"), "solver_s": r.get("solver_s")})
    for r in aud[:4]:
        samples.append({"engine": "source-audit", "item": r["name"], "status": r["status"], "detail": r.get("detail")})
    nontrivial = sum(1 for r in bnd if (r.get("vccs") or 0) > 0) + sum(1 for r in unb if r["status"] == "verified") + len(aud)
    level = P["level"]
    cov = {
        "explanation": P["explanation"],
        "obligations": unb_obl + len(aud),
        "discharged": unb_dis + sum(1 for r in aud if r["status"] == "verified"),
        "unbounded_units": [{"unit": r["name"], "status": r["status"], "back_end": "Verus 0.2026.09.13 / Z3",
                             "wall_s": round(r.get("wall_s") or 0, 2), "cmd": r.get("cmd"),
                             "generated_file_sha256": r.get("generated_sha256")} for r in unb],
        "vacuity_guards": [{"name": r["name"], "status": r["status"]} for r in vac],
        "bounded_obligations": len(bnd),
        "bounded_discharged": sum(1 for r in bnd if r["status"] == "verified"),
        "bounded_instances": [{"instance": r["name"], "status": r["status"], "function": r.get("function"),
                               "bounds": r.get("bounds"), "checks": r.get("checks"),
                               "wall_s": round(r.get("wall_s") or 0, 1), "solver_s": r.get("solver_s"),
                               "known_finding": bool(r.get("known_finding"))} for r in bnd],
        "audit_items": [{"item": r["name"], "status": r["status"], "detail": r.get("detail")} for r in aud],
        "smt_solver_time_ms": solver_ms,
        "sat_solver_time_s": round(sum((r.get("solver_s") or 0) for r in bnd), 2),
        "checker_cmd": "python3 check.py %s --tier %s  (verus <generated>.rs --output-json --time; cargo kani --only-codegen + %s)"
                       % (args.prop, args.tier, (bnd[0].get("checker_cmd") if bnd and bnd[0].get("checker_cmd") else "cbmc")),
        "trusted_base": props.TRUSTED_BASE + P.get("trusted_extra", []),
        "evaluations": max(1, len(results)),
        "distinct_nontrivial": nontrivial,
        "rule": "one evaluation per obligation (Verus unit, Kani instance = one concrete shape/graph class with symbolic "
                "values, or audit item); an instance counts as non-trivial if CBMC generated at least one verification "
                "condition for it / the Verus unit verified with at least one SMT query",
        "samples": samples or [{"note": "no obligations ran"}],
        "exhaustive": False,
        "undecided": [{"name": r["name"], "reason": r.get("reason")} for r in undecided],
        "known_findings_reported": [r["name"] for r in results if r.get("known_finding")],
        "not_decided_clauses": P.get("not_decided", []),
    }
    ev = {
        "property_id": args.prop, "tier": args.tier, "seed": seed, "level": level, "coverage": cov,
        "assumptions": props.TRUSTED_BASE + P.get("trusted_extra", []),
        "wall_s": round(wall, 1), "violations": len(violations),
    }
    os.makedirs(os.path.join(OUT, "evidence"), exist_ok=True)
    json.dump(ev, open(os.path.join(OUT, "evidence", args.prop + ".json"), "w"), indent=1)


if __name__ == "__main__":
    main()
