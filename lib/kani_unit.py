"""Engine K: Kani/CBMC on the real crate.

A scratch copy of /repo's working tree is made outside /repo and /verif, a harness module is
generated into it (src/array/verif_kani.rs), `cargo kani --only-codegen` compiles the real
crate + harnesses to GOTO, and every harness instance is linked and handed to `cbmc`
directly (text UI). Running cbmc ourselves instead of through the `cargo kani` driver avoids the
driver's `--json-ui --verbosity 9` (1 GB of JSON per harness) and lets us pass
`--max-field-sensitivity-array-size`, without which pointers read back from heap-allocated
`Array`s (88 bytes > CBMC's default 64-cell limit) are not constant-propagated and the graph walk
does not terminate (DESIGN.md 2.2).
"""
import json
import glob
import os
import re
import shutil
import subprocess
import tempfile
import time
from concurrent.futures import ThreadPoolExecutor

HERE = os.path.dirname(os.path.abspath(__file__))
VERIF = os.path.dirname(HERE)
KLIB = "/root/.kani/kani-0.68.0/library/kani/kani_lib.c"
MATH = os.path.join(VERIF, "kani", "math_models.c")

CBMC_FLAGS = [
    "--no-malloc-may-fail", "--no-undefined-shift-check", "--no-signed-overflow-check",
    "--no-bounds-check", "--no-pointer-check", "--no-self-loops-to-assumptions",
    "--no-pointer-primitive-check", "--object-bits", "16", "--sat-solver", "cadical",
    "--slice-formula", "--max-field-sensitivity-array-size", "2048",
    "--unwindset", "memcmp.0:130",
]


class Instance:
    """One harness instance = one bounded obligation."""

    def __init__(self, name, source, expect_panic=False, descr="", bounds="", timeout=600, mem_gb=24,
                 contract="", function="", math=None):
        self.name = name
        self.source = source            # Rust text declaring the harness (macro invocation)
        self.expect_panic = expect_panic
        self.descr = descr
        self.bounds = bounds
        self.timeout = timeout
        self.mem_gb = mem_gb
        self.contract = contract
        self.function = function
        self.math = math              # alternative math model file (kani/<math>.c)


class Scratch:
    def __init__(self, repo="/repo", features=None):
        self.repo = repo
        self.features = features or []
        root = os.environ.get("VERIF_SCRATCH", "/tmp")
        self.dir = tempfile.mkdtemp(prefix="corgi_verif_", dir=root)
        self.crate = os.path.join(self.dir, "c")
        self.meta = None

    def __enter__(self):
        return self

    def __exit__(self, *a):
        shutil.rmtree(self.dir, ignore_errors=True)

    def prepare(self, module_text):
        shutil.copytree(self.repo, self.crate,
                        ignore=shutil.ignore_patterns("target", ".git", "doc"))
        os.makedirs(os.path.join(self.crate, ".cargo"), exist_ok=True)
        with open(os.path.join(self.crate, ".cargo", "config.toml"), "w") as f:
            f.write("[net]\noffline = true\n")
        lib = os.path.join(self.crate, "src", "lib.rs")
        s = open(lib).read()
        s = "#![cfg_attr(kani, feature(allocator_api))]\n" + s
        open(lib, "w").write(s)
        mod = os.path.join(self.crate, "src", "array", "mod.rs")
        s = open(mod).read()
        s += "\n#[cfg(any(kani, verif_replay))]\nmod verif_kani;\n"
        open(mod, "w").write(s)
        open(os.path.join(self.crate, "src", "array", "verif_kani.rs"), "w").write(module_text)

    def codegen(self, timeout=1200):
        env = dict(os.environ, CARGO_NET_OFFLINE="true")
        cmd = ["cargo", "kani", "-Z", "function-contracts", "-Z", "stubbing", "--only-codegen"]
        if self.features:
            cmd += ["--features", ",".join(self.features)]
        t0 = time.time()
        p = subprocess.run(cmd, cwd=self.crate, env=env, capture_output=True, text=True, timeout=timeout)
        self.codegen_s = time.time() - t0
        self.codegen_log = (p.stdout + p.stderr)[-6000:]
        if p.returncode != 0:
            return False
        metas = glob.glob(os.path.join(self.crate, "target", "kani", "*", "debug", "build", "corgi", "*", "out",
                                       "*.kani-metadata.json"))
        if not metas:
            metas = glob.glob(os.path.join(self.crate, "target", "kani", "**", "*.kani-metadata.json"), recursive=True)
        if not metas:
            self.codegen_log += "\nno kani-metadata.json found"
            return False
        self.meta = {}
        for m in metas:
            for h in json.load(open(m)).get("proof_harnesses", []):
                self.meta[h["pretty_name"].split("::")[-1]] = h
        return True

    def link(self, name, math=None):
        h = self.meta[name]
        out = os.path.join(self.dir, name + ".goto")
        devnull = subprocess.DEVNULL
        steps = [
            ["goto-cc", h["goto_file"], KLIB, (os.path.join(VERIF, "kani", math + ".c") if math else MATH), "-o", out],
            ["goto-cc", out, "--function", h["mangled_name"], "-o", out],
            ["goto-instrument", "--add-library", "--no-malloc-may-fail", out, out],
            ["goto-instrument", "--generate-function-body-options", "assert-false-assume-false",
             "--generate-function-body", ".*", "--drop-unused-functions", out, out],
            ["goto-instrument", "--ensure-one-backedge-per-target", out, out],
        ]
        for st in steps:
            p = subprocess.run(st, stdout=devnull, stderr=subprocess.PIPE, text=True)
            if p.returncode != 0:
                raise RuntimeError("link step failed: %s\n%s" % (" ".join(st[:3]), p.stderr[-2000:]))
        return out, h

    def run_instance(self, inst, trace_property=None):
        trace = trace_property is not None
        t0 = time.time()
        res = {"name": inst.name, "descr": inst.descr, "bounds": inst.bounds, "expect_panic": inst.expect_panic,
               "contract": inst.contract, "function": inst.function}
        if inst.name not in self.meta:
            res.update(status="undecided", reason="harness not found in Kani metadata", wall_s=0.0)
            return res
        try:
            goto, h = self.link(inst.name, inst.math)
        except Exception as e:
            res.update(status="undecided", reason=str(e)[:500], wall_s=time.time() - t0)
            return res
        unwind = h["attributes"].get("unwind_value") or 12
        cmd = ["cbmc"] + CBMC_FLAGS + ["--verbosity", "8", "--unwind", str(unwind), goto]
        if trace:
            cmd[-1:-1] = ["--trace", "--property", trace_property]
        res["checker_cmd"] = " ".join(cmd[:-1]) + " <harness>.goto"
        limit = inst.mem_gb * 1024 * 1024 * 1024

        def pre():
            import resource
            resource.setrlimit(resource.RLIMIT_AS, (limit, limit))

        try:
            p = subprocess.run(cmd, capture_output=True, text=True, timeout=inst.timeout, preexec_fn=pre)
            out = p.stdout
        except subprocess.TimeoutExpired:
            res.update(status="undecided", reason="cbmc timeout %ds" % inst.timeout, wall_s=time.time() - t0)
            _rm(goto)
            return res
        _rm(goto)
        res["wall_s"] = time.time() - t0
        if trace:
            res["trace_inputs"] = parse_trace_inputs(out)
            res["status"] = "trace"
            return res
        parse_cbmc(out, res, inst)
        if res["status"] == "undecided" and "reason" not in res:
            res["reason"] = (p.stderr or out)[-400:]
        return res

    def replay_native(self, inst_name, inputs, timeout=600):
        """Run the same harness natively (rustc test build) on the counterexample inputs."""
        env = dict(os.environ, CARGO_NET_OFFLINE="true",
                   RUSTFLAGS=(os.environ.get("RUSTFLAGS", "") + " --cfg verif_replay").strip(),
                   VERIF_REPLAY=",".join(str(x) for x in inputs),
                   CARGO_TARGET_DIR=os.path.join(self.dir, "replay_target"))
        cmd = ["cargo", "test", "--offline", "--lib"]
        if self.features:
            cmd += ["--features", ",".join(self.features)]
        cmd += ["array::verif_kani::" + inst_name, "--", "--exact", "--nocapture", "--test-threads", "1"]
        try:
            p = subprocess.run(cmd, cwd=self.crate, env=env, capture_output=True, text=True, timeout=timeout)
        except subprocess.TimeoutExpired:
            return {"ran": False, "output": "native replay timed out"}
        out = (p.stdout + "\n" + p.stderr)
        failed = ("test result: FAILED" in out) or ("panicked at" in out)
        violated = "VERIF_REPLAY_ASSUMPTION_VIOLATED" in out
        return {"ran": True, "reproduced": failed and not violated, "assumption_violated": violated,
                "output": out[-3000:], "cmd": "VERIF_REPLAY=%s RUSTFLAGS='--cfg verif_replay' %s"
                % (env["VERIF_REPLAY"], " ".join(cmd))}


def _rm(p):
    try:
        os.remove(p)
    except OSError:
        pass


_RES = re.compile(r"^\[(?P<name>[^\]]+)\] (?P<rest>.*): (?P<st>SUCCESS|FAILURE|UNKNOWN|ERROR)\s*$")


_START = re.compile(r"^\[([^\]]+)\] (.*)$")
_END = re.compile(r"^(.*): (SUCCESS|FAILURE|UNKNOWN|ERROR)\s*$")


def _entries(out):
    """Yield (check name, description, status); descriptions may span several lines."""
    cur = None
    for line in out.splitlines():
        m = _START.match(line)
        if m and (cur is None or True):
            cur = [m.group(1), m.group(2)]
        elif cur is not None:
            cur[1] += " " + line.strip()
        else:
            continue
        e = _END.match(cur[1])
        if e:
            yield cur[0], e.group(1), e.group(2)
            cur = None
        elif len(cur[1]) > 4000:
            cur = None


def parse_cbmc(out, res, inst):
    checks = 0
    failed = []
    unwind_failed = []
    unsupported = []
    reach = 0
    marker = None
    for name, rest, st in _entries(out):
        if ".reachability_check." in name:
            reach += 1
            continue
        checks += 1
        if "VK_MUST_NOT_RETURN" in rest:
            marker = st
            continue
        if st == "SUCCESS":
            continue
        if ".unwind." in name or "recursion unwinding assertion" in rest or "unwinding assertion" in rest:
            unwind_failed.append(name)
        elif "unsupported_construct" in name or "is not currently supported by Kani" in rest:
            unsupported.append(name + ": " + rest[:160])
        else:
            failed.append({"check": name, "descr": re.sub(r"\[KANI_CHECK_ID[^\]]*\]\s*", "", rest)[:300]})
    res["checks"] = checks
    res["reachability_checks"] = reach
    m = re.search(r"^\*\* (\d+) of (\d+) failed", out, flags=re.M)
    done = ("VERIFICATION SUCCESSFUL" in out) or ("VERIFICATION FAILED" in out)
    m2 = re.search(r"Runtime Symex: ([0-9.e+-]+)s", out)
    res["symex_s"] = float(m2.group(1)) if m2 else None
    res["solver_s"] = round(sum(float(x) for x in re.findall(r"Runtime decision procedure: ([0-9.e+-]+)s", out)), 3)
    mv = re.search(r"Generated (\d+) VCC\(s\), (\d+) remaining", out)
    res["vccs"] = int(mv.group(1)) if mv else 0
    if not done or checks == 0:
        res["status"] = "undecided"
        res["reason"] = "cbmc did not finish (out of memory / crash / no checks generated)"
        return
    res["failed_checks"] = failed
    res["unwind_failed"] = unwind_failed
    if unsupported:
        res["status"] = "undecided"
        res["reason"] = "unsupported construct reachable: " + unsupported[0]
        return
    if unwind_failed:
        res["status"] = "undecided"
        res["reason"] = "unwinding assertion failed (bound too small for this code): " + unwind_failed[0]
        return
    if inst.expect_panic:
        if marker is None:
            res["status"] = "undecided"
            res["reason"] = "VK_MUST_NOT_RETURN marker not found in the harness"
        elif marker == "FAILURE":
            res["status"] = "failed"
            res["failed_checks"] = [{"check": inst.name, "descr": "the call returned although the contract requires a refusal (panic)"}]
        elif not failed:
            res["status"] = "undecided"
            res["reason"] = "marker unreachable but no panic was observed (vacuous harness?)"
        else:
            res["status"] = "verified"
            res["panic"] = failed[0]["descr"]
            res["failed_checks"] = []
    else:
        if marker == "FAILURE":
            failed.append({"check": inst.name, "descr": "VK_MUST_NOT_RETURN reached"})
        res["status"] = "failed" if failed else "verified"


def parse_trace_inputs(out):
    """Values returned by sym_i64() in call order, from a `cbmc --trace` listing."""
    vals = []
    for l in out.splitlines():
        m = re.match(r"\s*vk_input=(-?\d+)", l)
        if m:
            vals.append(int(m.group(1)))
    return vals


def build_module(group_files, instances):
    parts = [open(os.path.join(VERIF, "kani", "prelude.rs")).read()]
    for g in group_files:
        parts.append(open(os.path.join(VERIF, "kani", g)).read())
    parts.append("\n// ---- instances (generated)\n")
    for inst in instances:
        parts.append(inst.source)
    return "\n".join(parts) + "\n"


def run_instances(scratch, instances, jobs=12):
    with ThreadPoolExecutor(max_workers=jobs) as ex:
        return list(ex.map(scratch.run_instance, instances))
