"""Small Rust lexer used by the extractor.

It does not parse Rust; it only needs to (a) skip comments, strings, char literals and
lifetimes correctly so that braces / parentheses can be matched, (b) find `fn NAME` items,
(c) find loops inside a function body in source order together with the position of the
`{` that opens the loop body, and (d) find a closure literal by its textual prefix.

Any situation it does not understand raises ExtractError, which the runner turns into
exit 2 (undecided), never into a violation.
"""
import re


class ExtractError(Exception):
    pass


class Tok:
    __slots__ = ("kind", "text", "start", "end")

    def __init__(self, kind, text, start, end):
        self.kind, self.text, self.start, self.end = kind, text, start, end

    def __repr__(self):
        return "Tok(%s,%r,%d)" % (self.kind, self.text, self.start)


_ident = re.compile(r"[A-Za-z_][A-Za-z0-9_]*")
_number = re.compile(r"[0-9][0-9A-Za-z_]*(\.[0-9][0-9A-Za-z_]*)?")


def lex(src):
    """Return a list of tokens (comments and whitespace dropped; doc comments too)."""
    toks = []
    i, n = 0, len(src)
    while i < n:
        c = src[i]
        if c.isspace():
            i += 1
            continue
        if src.startswith("//", i):
            j = src.find("\n", i)
            i = n if j < 0 else j
            continue
        if src.startswith("/*", i):
            depth, j = 1, i + 2
            while j < n and depth:
                if src.startswith("/*", j):
                    depth += 1
                    j += 2
                elif src.startswith("*/", j):
                    depth -= 1
                    j += 2
                else:
                    j += 1
            i = j
            continue
        # raw strings r"..", r#".."#, br".."
        m = re.match(r"b?r(#*)\"", src[i:])
        if m:
            hashes = m.group(1)
            close = '"' + hashes
            j = src.find(close, i + len(m.group(0)))
            if j < 0:
                raise ExtractError("unterminated raw string at %d" % i)
            toks.append(Tok("str", src[i : j + len(close)], i, j + len(close)))
            i = j + len(close)
            continue
        if c == '"' or (c == "b" and i + 1 < n and src[i + 1] == '"'):
            j = i + (2 if c == "b" else 1)
            while j < n and src[j] != '"':
                j += 2 if src[j] == "\\" else 1
            toks.append(Tok("str", src[i : j + 1], i, j + 1))
            i = j + 1
            continue
        if c == "'":
            # char literal or lifetime
            m = re.match(r"'(\\.[^']*|[^'\\])'", src[i:])
            if m:
                toks.append(Tok("char", m.group(0), i, i + len(m.group(0))))
                i += len(m.group(0))
                continue
            m = re.match(r"'[A-Za-z_][A-Za-z0-9_]*", src[i:])
            if m:
                toks.append(Tok("lifetime", m.group(0), i, i + len(m.group(0))))
                i += len(m.group(0))
                continue
            raise ExtractError("stray quote at %d" % i)
        m = _ident.match(src, i)
        if m:
            toks.append(Tok("ident", m.group(0), i, m.end()))
            i = m.end()
            continue
        m = _number.match(src, i)
        if m:
            toks.append(Tok("num", m.group(0), i, m.end()))
            i = m.end()
            continue
        # multi-char operators we care about
        for op in ("<<=", ">>=", "..=", "...", "+=", "-=", "*=", "/=", "%=", "^=", "&=", "|=",
                   "==", "!=", "<=", ">=", "&&", "||", "->", "=>", "::", "..", "<<", ">>"):
            if src.startswith(op, i):
                toks.append(Tok("op", op, i, i + len(op)))
                i += len(op)
                break
        else:
            toks.append(Tok("op", c, i, i + 1))
            i += 1
    return toks


_OPEN = {"(": ")", "[": "]", "{": "}"}
_CLOSE = {")": "(", "]": "[", "}": "{"}


def match_close(toks, k):
    """toks[k] is an opening bracket; return index of its matching closer."""
    assert toks[k].text in _OPEN
    stack = []
    for j in range(k, len(toks)):
        t = toks[j]
        if t.kind != "op":
            continue
        if t.text in _OPEN:
            stack.append(t.text)
        elif t.text in _CLOSE:
            if not stack or stack[-1] != _CLOSE[t.text]:
                raise ExtractError("unbalanced bracket at %d" % t.start)
            stack.pop()
            if not stack:
                return j
    raise ExtractError("no closing bracket for token at %d" % toks[k].start)


class FnSpan:
    """Positions (character offsets into the file) of one `fn` item."""

    def __init__(self, name, start, sig_start, body_open, body_close, tok_lo, tok_hi):
        self.name = name
        self.start = start            # start of attributes / `pub` / `fn`
        self.sig_start = sig_start    # offset of the `fn` keyword
        self.body_open = body_open    # offset of `{`
        self.body_close = body_close  # offset of matching `}`
        self.tok_lo, self.tok_hi = tok_lo, tok_hi  # token index range of the body braces


def find_fn(src, toks, name, nth=0):
    """Find the nth item `fn name` in the file."""
    seen = 0
    for k in range(len(toks) - 1):
        if toks[k].kind == "ident" and toks[k].text == "fn" and toks[k + 1].kind == "ident" \
                and toks[k + 1].text == name:
            if seen != nth:
                seen += 1
                continue
            # signature: find body `{` at bracket depth 0 after the parameter list
            j = k + 2
            # generics
            depth_angle = 0
            while j < len(toks) and not (toks[j].kind == "op" and toks[j].text == "("):
                j += 1
            close_paren = match_close(toks, j)
            j = close_paren + 1
            while j < len(toks):
                t = toks[j]
                if t.kind == "op" and t.text in ("(", "["):
                    j = match_close(toks, j) + 1
                    continue
                if t.kind == "op" and t.text == "{":
                    break
                if t.kind == "op" and t.text == ";":
                    raise ExtractError("fn %s has no body" % name)
                j += 1
            body_open_tok = j
            body_close_tok = match_close(toks, j)
            # walk back over `pub`, `pub(crate)`, attributes
            s = k
            while s > 0:
                p = toks[s - 1]
                if p.kind == "ident" and p.text in ("pub", "const", "unsafe", "async", "extern"):
                    s -= 1
                    continue
                if p.kind == "op" and p.text == ")" :
                    # pub(crate)
                    q = s - 1
                    while q > 0 and not (toks[q].kind == "op" and toks[q].text == "("):
                        q -= 1
                    if q > 0 and toks[q - 1].kind == "ident" and toks[q - 1].text == "pub":
                        s = q - 1
                        continue
                break
            return FnSpan(name, toks[s].start, toks[k].start, toks[body_open_tok].start,
                          toks[body_close_tok].start, body_open_tok, body_close_tok)
    raise ExtractError("fn %s (occurrence %d) not found" % (name, nth))


class LoopSpan:
    def __init__(self, kind, kw_start, body_open, body_close):
        self.kind = kind              # for / while / loop
        self.kw_start = kw_start      # offset of the keyword
        self.body_open = body_open    # offset of `{`
        self.body_close = body_close  # offset of matching `}`


def find_loops(toks, lo, hi):
    """All loops whose keyword token lies in toks[lo:hi], in source order."""
    loops = []
    k = lo
    while k < hi:
        t = toks[k]
        if t.kind == "ident" and t.text in ("for", "while", "loop"):
            # `for<'a>` in types is not a loop
            if t.text == "for" and toks[k + 1].kind == "op" and toks[k + 1].text == "<":
                k += 1
                continue
            # `impl X for Y` — previous token would be an ident/`>`; inside fn bodies this does
            # not occur, but guard anyway: a loop keyword is preceded by `{`, `}`, `;`, `:` (label)
            prev = toks[k - 1]
            if not (prev.kind == "op" and prev.text in ("{", "}", ";", ":", "=", "(", ",", "=>")):
                k += 1
                continue
            j = k + 1
            while j < hi:
                u = toks[j]
                if u.kind == "op" and u.text in ("(", "["):
                    j = match_close(toks, j) + 1
                    continue
                if u.kind == "op" and u.text == "{":
                    break
                j += 1
            if j >= hi:
                raise ExtractError("loop header without body at %d" % t.start)
            close = match_close(toks, j)
            loops.append(LoopSpan(t.text, t.start, toks[j].start, toks[close].start))
        k += 1
    return loops


def find_closure(src, toks, lo, hi, prefix_tokens):
    """Find a closure literal whose tokens start with `prefix_tokens` (list of token texts),
    e.g. ['Box','::','new','(','move','|','output_slice',',','arrays','|','{'].
    Returns (body_open_offset, body_close_offset, tok_open, tok_close) of the `{ ... }`."""
    n = len(prefix_tokens)
    hits = []
    for k in range(lo, hi - n):
        if all(toks[k + d].text == prefix_tokens[d] for d in range(n)):
            hits.append(k)
    if len(hits) != 1:
        raise ExtractError("closure prefix %r found %d times" % (" ".join(prefix_tokens), len(hits)))
    k = hits[0] + n - 1
    close = match_close(toks, k)
    return toks[k].start, toks[close].start, k, close


_COMPOUND = {"+=": "+", "-=": "-", "*=": "*", "/=": "/"}


def rewrite_compound_assign(text):
    """R1: `P op= E;` -> `P = P op (E);` where P is a place without calls.

    Works on the token stream of `text`; the left-hand side is the maximal run of tokens
    back to the previous `;`, `{` or `}`; it must consist only of identifiers, numbers, `.`,
    `*`, `[`, `]`, `+`, `-`, `%`, `/` (index arithmetic), otherwise ExtractError."""
    toks = lex(text)
    edits = []
    for k, t in enumerate(toks):
        if t.kind == "op" and t.text in _COMPOUND:
            # lhs
            s = k - 1
            depth = 0
            while s >= 0:
                u = toks[s]
                if u.kind == "op" and u.text in ("]", ")"):
                    depth += 1
                elif u.kind == "op" and u.text in ("[", "("):
                    depth -= 1
                elif depth == 0 and u.kind == "op" and u.text in (";", "{", "}"):
                    break
                s -= 1
            lhs_toks = toks[s + 1 : k]
            if not lhs_toks:
                raise ExtractError("compound assignment without lhs")
            for u in lhs_toks:
                if u.kind == "op" and u.text == "(":
                    raise ExtractError("compound assignment with call/paren in lhs: R1 not applicable")
            lhs = text[lhs_toks[0].start : lhs_toks[-1].end]
            # rhs up to `;` at depth 0
            e = k + 1
            depth = 0
            while e < len(toks):
                u = toks[e]
                if u.kind == "op" and u.text in _OPEN:
                    depth += 1
                elif u.kind == "op" and u.text in _CLOSE:
                    depth -= 1
                elif depth == 0 and u.kind == "op" and u.text == ";":
                    break
                e += 1
            if e >= len(toks):
                raise ExtractError("compound assignment without `;`")
            rhs = text[toks[k + 1].start : toks[e - 1].end]
            edits.append((lhs_toks[0].start, toks[e].start,
                          "%s = %s %s (%s)" % (lhs, lhs, _COMPOUND[t.text], rhs)))
    out = text
    for a, b, rep in sorted(edits, reverse=True):
        out = out[:a] + rep + out[b:]
    return out, len(edits)
