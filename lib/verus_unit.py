"""Engine V: build a single Verus file from the real text of functions in /repo plus the
annotations in verus/contracts/<unit>.spec, run Verus, classify the outcome.

Spec file format (sections start with a line `@@<keyword> ...`):

  @@unit <name>
  @@file <path relative to the repository root>
  @@float f64|f32|both            (optional, default: follows the tier; `both` is the default)
  @@extra                          Verus text (spec fns, lemmas) placed after the prelude
  @@fn <name> [occurrence]         start of a function block; following sections belong to it
  @@closure <tok> <tok> ...        (optional) lift the closure literal starting with these tokens
  @@lifted_sig <text>              (with @@closure) signature of the lifted function, up to and
                                   excluding the contract / body
  @@region_from <stmt tokens>      (R4) lift the statements from this one through the end of the first loop nest after it
  @@region_occurrence <k>          which occurrence of the anchor inside the function (default 0)
  @@region_tail <text>             text appended after the region inside the lifted fn (returned variable)
  @@lifted_prefix / @@lifted_suffix  text around the lifted fn (e.g. `impl ArrayV {` ... `}`)
  @@loops <n>                      number of loops expected in the extracted text (anchor check)
  @@attrs                          attribute lines placed before `fn`
  @@contract                       requires/ensures text placed between signature and body
  @@body_start                     ghost text placed right after the body's `{`
  @@body_end                       ghost text placed right before the body's `}`
  @@loop <k> header <text>         anchor: loop k's header (keyword up to `{`) must equal <text>
  @@loop <k> invariant             invariant/decreases text placed between loop header and `{`
  @@loop <k> before|body_start|body_end|after   ghost text at that position of loop k (1-based,
                                   source order)

Everything inserted is ghost text (contracts, invariants, proof blocks, `broadcast use`); Verus
itself guarantees that ghost code cannot change what the executable text computes.
What is changed in / dropped from the executable text is exactly R1-R3 of DESIGN.md section 3.1.
"""
import hashlib
import json
import os
import re
import subprocess
import time

from rustlex import (ExtractError, lex, find_fn, find_loops, find_closure, match_close, _COMPOUND,
                     _OPEN, _CLOSE)

HERE = os.path.dirname(os.path.abspath(__file__))
VERIF = os.path.dirname(HERE)

SEMANTIC_PATTERNS = [
    "postcondition not satisfied",
    "invariant not satisfied",
    "precondition not satisfied",
    "assertion failed",
    "possible arithmetic underflow/overflow",
    "possible division by zero",
    "index out of bounds",
    "decreases not satisfied",
    "loop invariant",
    "possible bit shift underflow/overflow",
]
RESOURCE_PATTERNS = ["Resource limit (rlimit) exceeded", "rlimit exceeded", "timed out", "timeout"]


class Section:
    def __init__(self):
        self.name = None
        self.occurrence = 0
        self.closure = None
        self.lifted_sig = None
        self.loops = None
        self.attrs = ""
        self.contract = ""
        self.body_start = ""
        self.body_end = ""
        self.loop_ann = {}  # (k, where) -> text
        self.loop_headers = {}  # k -> expected header text
        self.region_from = None   # R4: first statement of the lifted region (token-exact, whitespace-insensitive)
        self.region_occurrence = 0
        self.region_tail = ""     # text appended after the region inside the lifted fn (e.g. the returned variable)
        self.lifted_prefix = ""   # text before the lifted fn (e.g. `impl ArrayV {`)
        self.lifted_suffix = ""   # text after it (e.g. `}`)


class UnitSpec:
    def __init__(self, path):
        self.path = path
        self.unit = None
        self.file = None
        self.extra = ""
        self.fns = []
        self._parse(open(path).read())

    def _parse(self, text):
        cur_key, cur_fn, buf = None, None, []

        def flush():
            nonlocal buf
            body = "\n".join(buf).rstrip() + "\n" if buf else ""
            buf = []
            if cur_key is None:
                return
            k = cur_key
            if k == "extra":
                self.extra += body
            elif k == "attrs":
                cur_fn.attrs += body
            elif k == "contract":
                cur_fn.contract += body
            elif k == "body_start":
                cur_fn.body_start += body
            elif k == "body_end":
                cur_fn.body_end += body
            elif isinstance(k, tuple):
                cur_fn.loop_ann[k] = cur_fn.loop_ann.get(k, "") + body

        for line in text.splitlines():
            if line.startswith("@@"):
                flush()
                parts = line[2:].split()
                kw = parts[0]
                cur_key = None
                if kw == "unit":
                    self.unit = parts[1]
                elif kw == "file":
                    self.file = parts[1]
                elif kw == "extra":
                    cur_key = "extra"
                elif kw == "fn":
                    cur_fn = Section()
                    cur_fn.name = parts[1]
                    cur_fn.occurrence = int(parts[2]) if len(parts) > 2 else 0
                    self.fns.append(cur_fn)
                elif kw == "closure":
                    cur_fn.closure = parts[1:]
                elif kw == "lifted_sig":
                    cur_fn.lifted_sig = line[2 + len("lifted_sig"):].strip()
                elif kw == "region_from":
                    cur_fn.region_from = line[2 + len("region_from"):].strip()
                elif kw == "region_occurrence":
                    cur_fn.region_occurrence = int(parts[1])
                elif kw == "region_tail":
                    cur_fn.region_tail = line[2 + len("region_tail"):].strip()
                elif kw == "lifted_prefix":
                    cur_fn.lifted_prefix = line[2 + len("lifted_prefix"):].strip()
                elif kw == "lifted_suffix":
                    cur_fn.lifted_suffix = line[2 + len("lifted_suffix"):].strip()
                elif kw == "loops":
                    cur_fn.loops = int(parts[1])
                elif kw in ("attrs", "contract", "body_start", "body_end"):
                    cur_key = kw
                elif kw == "loop" and len(parts) > 2 and parts[2] == "header":
                    # anchor: the loop header must read exactly like this (whitespace-insensitive)
                    cur_fn.loop_headers[int(parts[1])] = " ".join(parts[3:])
                elif kw == "loop":
                    cur_key = (int(parts[1]), parts[2])
                    if parts[2] not in ("invariant", "before", "body_start", "body_end", "after"):
                        raise ValueError("bad loop position in %s: %s" % (self.path, line))
                elif kw == "#":
                    pass
                else:
                    raise ValueError("unknown section in %s: %s" % (self.path, line))
            else:
                if cur_key is not None:
                    buf.append(line)
        flush()


def _compound_edits(text, base):
    """R1 edits for `text` (offsets shifted by base)."""
    toks = lex(text)
    edits = []
    for k, t in enumerate(toks):
        if t.kind == "op" and t.text in _COMPOUND:
            s = k - 1
            depth = 0
            while s >= 0:
                u = toks[s]
                if u.kind == "op" and u.text in ("]", ")"):
                    depth += 1
                elif u.kind == "op" and u.text in ("[", "("):
                    if depth == 0:
                        break
                    depth -= 1
                elif depth == 0 and u.kind == "op" and u.text in (";", "{", "}"):
                    break
                s -= 1
            lhs_toks = toks[s + 1 : k]
            if not lhs_toks:
                raise ExtractError("compound assignment without lhs")
            for u in lhs_toks:
                if u.kind == "op" and u.text == "(":
                    raise ExtractError("compound assignment with call in lhs: R1 not applicable")
            lhs = text[lhs_toks[0].start : lhs_toks[-1].end]
            e = k + 1
            depth = 0
            while e < len(toks):
                u = toks[e]
                if u.kind == "op" and u.text in _OPEN:
                    depth += 1
                elif u.kind == "op" and u.text in _CLOSE:
                    depth -= 1
                elif depth == 0 and u.kind == "op" and u.text == ";":
                    break
                e += 1
            if e >= len(toks):
                raise ExtractError("compound assignment without `;`")
            rhs = text[toks[k + 1].start : toks[e - 1].end]
            edits.append((base + lhs_toks[0].start, base + toks[e].start,
                          "%s = %s %s (%s)" % (lhs, lhs, _COMPOUND[t.text], rhs)))
    return edits


def _strip_cfg_attrs(text):
    """R3: drop `#[cfg(not(feature = "blas"))]`, `#[inline]` attribute lines inside the text."""
    return re.sub(r'^[ \t]*#\[(inline|cfg\(not\(feature = "blas"\)\))\][ \t]*\n', "", text, flags=re.M)


def build_function(src, sec):
    """Return (annotated_text, info) for one function section."""
    toks = lex(src)
    fn = find_fn(src, toks, sec.name, sec.occurrence)
    info = {"fn": sec.name}
    edits = []  # (start, end, replacement)
    region_mode = sec.region_from is not None
    if region_mode:
        # R4 statement-range lifting: from the anchor statement through the end of the first loop nest that follows it
        want = [t.text for t in lex(sec.region_from)]
        hits = [k for k in range(fn.tok_lo, fn.tok_hi - len(want))
                if all(toks[k + d].text == want[d] for d in range(len(want)))]
        if len(hits) <= sec.region_occurrence:
            raise ExtractError("fn %s: region anchor `%s` found %d times" % (sec.name, sec.region_from, len(hits)))
        k0 = hits[sec.region_occurrence]
        lps = [lp for lp in find_loops(toks, k0, fn.tok_hi)]
        if not lps:
            raise ExtractError("fn %s: no loop after the region anchor" % sec.name)
        first = lps[0]
        region_lo, region_hi = toks[k0].start, first.body_close + 1
        span_text = src[region_lo:region_hi]
        body_open, body_close = region_lo - 1, region_hi  # virtual body: annotations at body_start/end unsupported here
        tok_lo = k0
        tok_hi = next(i for i, t in enumerate(toks) if t.start >= first.body_close)
        header = (sec.lifted_prefix + "\n" if sec.lifted_prefix else "") + (sec.attrs or "") + sec.lifted_sig + "\n" + (sec.contract or "") + "{\n" + (sec.body_start or "")
        info["lifted_from"] = sec.name
        info["lifted_name"] = re.search(r"fn\s+(\w+)", sec.lifted_sig).group(1)
        info["region"] = sec.region_from
    elif sec.closure:
        bo, bc, tko, tkc = find_closure(src, toks, fn.tok_lo, fn.tok_hi, sec.closure)
        region_lo, region_hi = bo, bc + 1          # `{ ... }` of the closure
        span_text = src[region_lo:region_hi]
        body_open, body_close = bo, bc
        tok_lo, tok_hi = tko, tkc
        header = (sec.attrs or "") + sec.lifted_sig + "\n" + (sec.contract or "")
        info["lifted_from"] = sec.name
        info["lifted_name"] = re.search(r"fn\s+(\w+)", sec.lifted_sig).group(1)
    else:
        region_lo, region_hi = fn.sig_start, fn.body_close + 1
        span_text = src[region_lo:region_hi]
        body_open, body_close = fn.body_open, fn.body_close
        tok_lo, tok_hi = fn.tok_lo, fn.tok_hi
        header = None
        if sec.attrs:
            edits.append((region_lo, region_lo, sec.attrs))
        if sec.contract:
            edits.append((body_open, body_open, "\n" + sec.contract))
    info["sha256"] = hashlib.sha256(span_text.encode()).hexdigest()
    info["span"] = [src.count("\n", 0, region_lo) + 1, src.count("\n", 0, region_hi) + 1]
    loops = find_loops(toks, tok_lo, tok_hi)
    info["loops"] = len(loops)
    if sec.loops is not None and len(loops) != sec.loops:
        raise ExtractError("fn %s: expected %d loops, found %d (loop structure changed; anchors lost)"
                           % (sec.name, sec.loops, len(loops)))
    for k, expected in sec.loop_headers.items():
        if k < 1 or k > len(loops):
            raise ExtractError("fn %s: header anchor for loop %d but only %d loops" % (sec.name, k, len(loops)))
        got = " ".join(src[loops[k - 1].kw_start:loops[k - 1].body_open].split())
        # only the loop kind and pattern are anchored (`for r in`), NOT the range: a changed bound must
        # still reach the verifier and fail there
        if not got.startswith(" ".join(expected.split()) + " "):
            raise ExtractError("fn %s: loop %d header is `%s`, contract was written for `%s` (loop structure changed; anchors lost)"
                               % (sec.name, k, got, expected))
    if sec.body_start and not region_mode:
        edits.append((body_open + 1, body_open + 1, "\n" + sec.body_start))
    if sec.body_end and not region_mode:
        edits.append((body_close, body_close, "\n" + sec.body_end))
    for (k, where), text in sec.loop_ann.items():
        if k < 1 or k > len(loops):
            raise ExtractError("fn %s: annotation for loop %d but only %d loops" % (sec.name, k, len(loops)))
        lp = loops[k - 1]
        if where == "invariant":
            edits.append((lp.body_open, lp.body_open, "\n" + text))
        elif where == "before":
            edits.append((lp.kw_start, lp.kw_start, text))
        elif where == "body_start":
            edits.append((lp.body_open + 1, lp.body_open + 1, "\n" + text))
        elif where == "body_end":
            edits.append((lp.body_close, lp.body_close, "\n" + text))
        elif where == "after":
            edits.append((lp.body_close + 1, lp.body_close + 1, "\n" + text))
    r1 = _compound_edits(span_text, region_lo)
    info["r1_rewrites"] = len(r1)
    edits.extend(r1)
    # apply edits back to front; stable for equal offsets: keep spec order
    out = src
    indexed = list(enumerate(edits))
    indexed.sort(key=lambda x: (x[1][0], x[0]), reverse=True)
    for _, (a, b, rep) in indexed:
        if a < region_lo or b > region_hi:
            raise ExtractError("edit outside region")
        out = out[:a] + rep + out[b:]
    new_hi = region_hi + sum(len(rep) - (b - a) for a, b, rep in edits)
    text = out[region_lo:new_hi]
    text = _strip_cfg_attrs(text)
    if header is not None:
        text = header + text
    if region_mode:
        text = text + "\n" + (sec.body_end or "") + sec.region_tail + "\n}\n" + (sec.lifted_suffix + "\n" if sec.lifted_suffix else "")
    return text, info


def build_unit(repo, spec, float_ty="f64", must_fail=None):
    """Return (verus_source, infos). must_fail = function name whose contract gets `ensures false`."""
    src = open(os.path.join(repo, spec.file)).read()
    prelude = open(os.path.join(VERIF, "verus", "prelude.rs")).read().replace("@FLOAT@", float_ty)
    parts = [prelude, spec.extra]
    infos = []
    for sec in spec.fns:
        text, info = build_function(src, sec)
        if must_fail and (info.get("lifted_name") or sec.name) == must_fail:
            # vacuity twin: the same function must NOT verify against `ensures false`
            if "ensures" in text:
                text = text.replace("ensures", "ensures false,", 1)
            else:
                raise ExtractError("no ensures clause to falsify in %s" % must_fail)
        parts.append(text)
        infos.append(info)
    parts.append("\n} // verus!\nfn main() {}\n")
    return "\n".join(parts), infos


def run_verus(path, timeout=600, rlimit=None):
    cmd = ["verus", path, "--output-json", "--time", "--multiple-errors", "20"]
    if rlimit:
        cmd += ["--rlimit", str(rlimit)]
    t0 = time.time()
    try:
        p = subprocess.run(cmd, capture_output=True, text=True, timeout=timeout)
    except subprocess.TimeoutExpired:
        return {"status": "undecided", "reason": "verus wall-clock timeout %ds" % timeout,
                "wall_s": time.time() - t0, "stderr": "", "json": None, "cmd": " ".join(cmd)}
    wall = time.time() - t0
    js = None
    try:
        js = json.loads(p.stdout)
    except Exception:
        pass
    res = {"wall_s": wall, "stderr": p.stderr, "json": js, "cmd": " ".join(cmd), "returncode": p.returncode}
    if js is None:
        res.update(status="undecided", reason="verus produced no JSON (compile error?)")
        return res
    vr = js.get("verification-results", {})
    if vr.get("encountered-vir-error"):
        res.update(status="undecided", reason="verus front-end (VIR) error: unsupported construct or malformed spec")
        return res
    fb = []
    try:
        for m in js["times-ms"]["smt"]["smt-run-module-times"]:
            fb.extend(m.get("function-breakdown", []))
    except Exception:
        pass
    res["functions"] = fb
    if vr.get("success"):
        res.update(status="verified", verified=vr.get("verified", 0), errors=0)
        return res
    err = p.stderr
    if re.search(r"^error(\[E\d+\])?: (?!.*(" + "|".join(re.escape(x) for x in SEMANTIC_PATTERNS + RESOURCE_PATTERNS)
                 + r"|aborting due to))", err, flags=re.M) and vr.get("errors", 0) == 0:
        res.update(status="undecided", reason="rust/verus compile error")
        return res
    sem = [x for x in SEMANTIC_PATTERNS if x in err]
    resrc = [x for x in RESOURCE_PATTERNS if x in err]
    failed_fns = [f["function"] for f in fb if not f.get("success", True)]
    res["failed_functions"] = failed_fns
    res["verified"] = vr.get("verified", 0)
    res["errors"] = vr.get("errors", 0)
    if sem:
        res.update(status="failed", reason="; ".join(sem))
    elif resrc:
        res.update(status="undecided", reason="; ".join(resrc))
    else:
        res.update(status="undecided", reason="verus failed for an unrecognised reason")
    return res


def failed_obligations(stderr):
    """Extract (kind, line, snippet) triples from Verus' diagnostics."""
    out = []
    lines = stderr.splitlines()
    for i, l in enumerate(lines):
        m = re.match(r"error: (.*)", l)
        if m and any(x in m.group(1) for x in SEMANTIC_PATTERNS):
            loc = ""
            snippet = ""
            for j in range(i + 1, min(i + 8, len(lines))):
                mm = re.match(r"\s*--> (.*)", lines[j])
                if mm:
                    loc = mm.group(1)
                mm = re.match(r"\s*\d+ \|\s?(.*)", lines[j])
                if mm and not snippet:
                    snippet = mm.group(1).strip()
            out.append({"kind": m.group(1), "at": loc, "text": snippet})
    return out
