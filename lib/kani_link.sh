#!/bin/bash
# usage: kani_link.sh <symtab.out> <mangled_name> <out_file>
# Reproduces the link/instrument steps `cargo kani` performs between codegen and cbmc
# (observed with `cargo kani --verbose`, Kani 0.68), so that cbmc can be run without --json-ui.
set -e
SYM="$1"; FN="$2"; OUT="$3"
KLIB=/root/.kani/kani-0.68.0/library/kani/kani_lib.c
goto-cc "$SYM" "$KLIB" -o "$OUT"
goto-cc "$OUT" --function "$FN" -o "$OUT"
goto-instrument --add-library --no-malloc-may-fail "$OUT" "$OUT" >/dev/null 2>&1
goto-instrument --generate-function-body-options assert-false-assume-false --generate-function-body '.*' --drop-unused-functions "$OUT" "$OUT" >/dev/null 2>&1
goto-instrument --ensure-one-backedge-per-target "$OUT" "$OUT" >/dev/null 2>&1
