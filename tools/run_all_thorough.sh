#!/bin/bash
# developer helper: thorough tier for every property, evidence to $VERIF_OUT (default /tmp/thorough_out)
export VERIF_OUT=${VERIF_OUT:-/tmp/thorough_out}
export VERIF_JOBS=${VERIF_JOBS:-8}
cd /verif
for p in ${@:-$(python3 -c "import props; print(' '.join(sorted(props.PROPS)))")}; do
  echo "=== $p $(date +%T)"; python3 check.py $p --tier thorough 2>&1 | grep -E "VIOLATION|UNDECIDED|KNOWN|tier=" | cut -c1-300
done
