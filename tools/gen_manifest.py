#!/usr/bin/env python3
"""Regenerates MANIFEST.json from props.py (checks) and NOT_APPLICABLE below."""
import json
import os
import sys

HERE = os.path.dirname(os.path.dirname(os.path.abspath(__file__)))
sys.path.insert(0, HERE)
import props  # noqa: E402

NOT_APPLICABLE = props.NOT_APPLICABLE

checks = []
for pid in sorted(props.PROPS):
    P = props.PROPS[pid]
    checks.append({
        "property_id": pid,
        "quick_cmd": "python3 check.py %s --tier quick" % pid,
        "thorough_cmd": "python3 check.py %s --tier thorough" % pid,
        "evidence_file": "/verif/evidence/%s.json" % pid,
        "replay_cmd_template": "python3 tools/replay.py {path}",
        "engine": "contracts",
        "level_claimed": {"category": P["level"], "text": P["level_text"], "design_ref": P.get("design_ref", "DESIGN.md section 6")},
        "level_note": P["level_note"],
        "technique": P["technique"],
    })

manifest = {
    "version": 1,
    "setup_cmd": "python3 tools/setup.py",
    "hooks": {
        "guard": "kani",
        "enable": "none committed to /repo: Kani sets cfg(kani) itself; the harness module (src/array/verif_kani.rs), one "
                  "`#[cfg(any(kani, verif_replay))] mod verif_kani;` line and one crate attribute are injected into a scratch copy "
                  "of /repo's working tree on every run (lib/kani_unit.py); replays build the same copy with --cfg verif_replay",
        "baseline_off_cmd": "cd /repo && cargo test --workspace --no-fail-fast --offline",
        "source_commits": [],
        "add_only": True,
    },
    "engines": [
        {"name": "contracts", "path": "check.py",
         "serves_properties": sorted(props.PROPS),
         "kind_free_text": "contract-based deductive verification: Verus (unbounded) on the verbatim text of kernels extracted from "
                           "/repo on every run; Kani/CBMC (bounded, labelled) contract harnesses on the real crate; source audits "
                           "for frame conditions discharged by rustc"},
    ],
    "checks": checks,
    "not_applicable": [{"property_id": k, "reason": v} for k, v in sorted(NOT_APPLICABLE.items()) if k not in props.PROPS],
    "notes": "Every command rebuilds from /repo's working tree (scratch copies under $VERIF_SCRATCH or /tmp, removed on exit). "
             "Exit 0 = all obligations discharged (KNOWN-FINDING lines for listed open findings), 1 = VIOLATION, 2 = undecided. "
             "Genuine defects found and repaired are listed in known_findings.json (all fixed; none open).",
}
json.dump(manifest, open(os.path.join(HERE, "MANIFEST.json"), "w"), indent=1)
print("wrote MANIFEST.json with %d checks, %d not_applicable" % (len(checks), len(manifest["not_applicable"])))
