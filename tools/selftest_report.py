#!/usr/bin/env python3
"""Renders seeded/RESULTS.json (latest record per seed x property) into the table of DESIGN.md section 10."""
import json, os, re
HERE = os.path.dirname(os.path.dirname(os.path.abspath(__file__)))
res = json.load(open(os.path.join(HERE, "seeded", "RESULTS.json")))
latest = {}
for r in res:
    if "property" in r:
        latest[(r["seed"], r["property"])] = r
rows = []
for (seed, prop), r in sorted(latest.items()):
    meta_p = os.path.join(HERE, "seeded", seed, "meta.json")
    need = json.load(open(meta_p))["needs_to_manifest"] if os.path.exists(meta_p) else ("reverse of a fix commit" if seed.startswith("revert_") else "harmless edit")
    if r["expected"] == "violation":
        verdict = "caught" if r["exit"] == 1 else ("undecided (exit 2)" if r["exit"] == 2 else "MISSED")
    else:
        verdict = "no alarm" if r["exit"] == 0 else ("FALSE ALARM" if r["exit"] == 1 else "undecided (exit 2)")
    obl = ", ".join(r.get("obligations", [])[:3]) + (" …" if len(r.get("obligations", [])) > 3 else "")
    rows.append("| %s | %s | %s | %s | %s | %s |" % (seed, prop, need[:110], verdict, obl, "%ds" % r["wall_s"]))
table = "| change | check run | needs, to manifest | verdict (%s tier) | failing obligations | wall |\n|---|---|---|---|---|---|\n" % "quick" + "\n".join(rows)
p = os.path.join(HERE, "DESIGN.md")
s = open(p).read()
begin, end = "<!-- SELFTEST-TABLE-BEGIN -->", "<!-- SELFTEST-TABLE-END -->"
if begin in s:
    s = s[:s.index(begin) + len(begin)] + "\n" + table + "\n" + s[s.index(end):]
    open(p, "w").write(s)
print(table)
