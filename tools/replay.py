#!/usr/bin/env python3
"""Replay a violation file: prints the failed obligation and, where the verifier produced a
counterexample, re-runs the native replay (the same harness body compiled by rustc, inputs from the
counterexample) against a fresh scratch copy of /repo's working tree."""
import json, os, sys
HERE = os.path.dirname(os.path.dirname(os.path.abspath(__file__)))
sys.path.insert(0, HERE); sys.path.insert(0, os.path.join(HERE, "lib"))
import props, kani_unit as KU
d = json.load(open(sys.argv[1]))
print("property:", d["property"], "obligation:", d["obligation"], "engine:", d["engine"])
print("contract:", d.get("contract")); print("failed:", json.dumps(d.get("failed"), indent=1)[:2000])
if d["engine"] != "kani" or d.get("counterexample_inputs") is None:
    print(d.get("note")); print((d.get("verifier_output") or "")[-3000:]); sys.exit(0)
P = props.PROPS[d["property"]]
name = d["obligation"].replace("[f32]", "")
feats = ["f32"] if d["obligation"].endswith("[f32]") else []
insts = [i for t in ("thorough", "quick") for i in P["instances"](t) if i.name == name][:1]
with KU.Scratch(repo=os.environ.get("VERIF_REPO", "/repo"), features=feats) as sc:
    sc.prepare(KU.build_module(P["kani_groups"], insts))
    r = sc.replay_native(name, d["counterexample_inputs"])
    print("inputs:", d["counterexample_inputs"]); print("reproduced on the real code:", r.get("reproduced")); print(r["output"][-1500:])
    sys.exit(1 if r.get("reproduced") else 0)
