#!/usr/bin/env python3
"""setup_cmd: nothing to download or build; check that the tools the checks need are present."""
import shutil, subprocess, sys, os
missing = [t for t in ("verus", "cargo-kani", "cbmc", "goto-cc", "goto-instrument", "cargo") if shutil.which(t) is None]
if missing:
    print("missing tools:", missing); sys.exit(1)
if not os.path.exists("/root/.kani/kani-0.68.0/library/kani/kani_lib.c"):
    print("kani_lib.c not found"); sys.exit(1)
for d in ("evidence", "replays"):
    os.makedirs(os.path.join(os.path.dirname(os.path.dirname(os.path.abspath(__file__))), d), exist_ok=True)
print(subprocess.run(["verus", "--version"], capture_output=True, text=True).stdout.split("\n")[1].strip())
print("setup ok")
