#!/usr/bin/env python3
"""Self-test (not a registered command): applies each seeded property-breaking change to a scratch
copy of /repo and runs the named property checks against it; also `--harmless` edits that must NOT
alarm, and `--scan` for the framework's own assumptions.

usage: selftest.py [--only <seed id>] [--tier quick|thorough] [--props C01,C10] [--reverse] [--harmless] [--scan]
Results are appended to seeded/RESULTS.json (one record per (seed, property) run).
"""
import argparse
import json
import os
import re
import shutil
import subprocess
import sys
import tempfile
import time

HERE = os.path.dirname(os.path.dirname(os.path.abspath(__file__)))


def scan():
    pats = ["assume(", "admit(", "external_body", "kani::stub", "kani::assume", "assume_specification"]
    for d, _, fs in os.walk(HERE):
        if ".git" in d or "evidence" in d or "replays" in d or "seeded" in d:
            continue
        for f in fs:
            if not f.endswith((".rs", ".spec", ".c")):
                continue
            p = os.path.join(d, f)
            for n, line in enumerate(open(p, errors="ignore"), 1):
                code = line.split("//")[0]
                for pat in pats:
                    if pat in code:
                        print("%s:%d: %s" % (os.path.relpath(p, HERE), n, line.strip()[:140]))


def run_case(name, patch_path, props, tier, results, expect_violation=True):
    work = tempfile.mkdtemp(prefix="corgi_selftest_", dir=os.environ.get("VERIF_SCRATCH", "/tmp"))
    try:
        copy = os.path.join(work, "repo")
        shutil.copytree("/repo", copy, ignore=shutil.ignore_patterns("target", ".git", "doc"))
        p = subprocess.run(["patch", "-p1", "--no-backup-if-mismatch", "-i", patch_path], cwd=copy, capture_output=True, text=True)
        if p.returncode != 0:
            print("PATCH FAILED for %s: %s" % (name, (p.stdout + p.stderr)[-400:]))
            results.append({"seed": name, "status": "patch-failed"})
            return
        for prop in props:
            out = os.path.join(work, "out")
            env = dict(os.environ, VERIF_REPO=copy, VERIF_OUT=out)
            t0 = time.time()
            r = subprocess.run([sys.executable, os.path.join(HERE, "check.py"), prop, "--tier", tier], env=env, capture_output=True, text=True)
            viol = [l for l in r.stdout.splitlines() if l.startswith("VIOLATION")]
            und = [l for l in r.stdout.splitlines() if l.startswith("UNDECIDED")]
            rec = {"seed": name, "property": prop, "tier": tier, "exit": r.returncode, "violations": len(viol),
                   "obligations": [re.search(r"obligation=(\S+)", v).group(1) for v in viol][:12],
                   "no_input": sum(1 for v in viol if v.endswith("no-failing-input-found")),
                   "undecided": len(und), "wall_s": round(time.time() - t0), "expected": "violation" if expect_violation else "pass",
                   "at": time.strftime("%Y-%m-%d %H:%M")}
            results.append(rec)
            verdict = "CAUGHT" if r.returncode == 1 else ("undecided" if r.returncode == 2 else "missed")
            if not expect_violation:
                verdict = "ok (no alarm)" if r.returncode == 0 else ("FALSE ALARM" if r.returncode == 1 else "undecided")
            print("%-28s %-4s %-14s exit=%d violations=%d undecided=%d %ds %s" % (name, prop, verdict, r.returncode, len(viol), len(und),
                                                                               rec["wall_s"], rec["obligations"][:3]))
            sys.stdout.flush()
    finally:
        shutil.rmtree(work, ignore_errors=True)


def main():
    ap = argparse.ArgumentParser()
    ap.add_argument("--only", default=None)
    ap.add_argument("--tier", default="quick")
    ap.add_argument("--props", default=None)
    ap.add_argument("--reverse", action="store_true", help="use the reverse patches of the fix commits (seeded_reverse/)")
    ap.add_argument("--harmless", action="store_true", help="run the harmless edits (seeded_harmless/): no alarm expected")
    ap.add_argument("--scan", action="store_true")
    args = ap.parse_args()
    if args.scan:
        scan()
        return
    results = []
    if args.reverse or args.harmless:
        d = os.path.join(HERE, "seeded_reverse" if args.reverse else "seeded_harmless")
        table = json.load(open(os.path.join(d, "cases.json")))
        for name, props in sorted(table.items()):
            if args.only and args.only not in name:
                continue
            run_case(name, os.path.join(d, name), args.props.split(",") if args.props else props, args.tier, results,
                     expect_violation=not args.harmless)
    else:
        sd = os.path.join(HERE, "seeded")
        for sid in sorted(os.listdir(sd)):
            meta = os.path.join(sd, sid, "meta.json")
            if not os.path.exists(meta) or (args.only and args.only not in sid):
                continue
            m = json.load(open(meta))
            props = args.props.split(",") if args.props else m.get("run_checks", [m["property"]])
            run_case(sid, os.path.join(sd, sid, "patch.diff"), props, args.tier, results)
    path = os.path.join(HERE, "seeded", "RESULTS.json")
    old = json.load(open(path)) if os.path.exists(path) else []
    json.dump(old + results, open(path, "w"), indent=1)


if __name__ == "__main__":
    main()
