#!/usr/bin/env python3
"""Developer helper: build + verify one Verus unit from /repo's current text and print the outcome.
usage: run_verus_unit.py <unit> [f64|f32] [--keep] [--twin <fn>]"""
import os, sys, tempfile
HERE = os.path.dirname(os.path.dirname(os.path.abspath(__file__)))
sys.path.insert(0, os.path.join(HERE, "lib"))
import verus_unit as VU
unit = sys.argv[1]
fl = "f32" if "f32" in sys.argv[2:] else "f64"
twin = sys.argv[sys.argv.index("--twin") + 1] if "--twin" in sys.argv else None
spec = VU.UnitSpec(os.path.join(HERE, "verus", "contracts", unit + ".spec"))
src, infos = VU.build_unit(os.environ.get("VERIF_REPO", "/repo"), spec, float_ty=fl, must_fail=twin)
d = tempfile.mkdtemp(prefix="vunit_")
path = os.path.join(d, unit + ".rs")
open(path, "w").write(src)
r = VU.run_verus(path)
print("status:", r["status"], "| reason:", r.get("reason"), "| wall %.1fs" % r["wall_s"])
for f in r.get("functions", []):
    print("   %-50s %-6s %6d ms  ok=%s" % (f["function"], f.get("mode:"), f.get("time", 0), f.get("success")))
if r["status"] != "verified":
    print(r["stderr"][-6000:])
print("generated file:", path, "(infos: %s)" % infos)
if "--keep" not in sys.argv and r["status"] == "verified":
    import shutil; shutil.rmtree(d)
