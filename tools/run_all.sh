#!/bin/bash
# developer helper: run every registered check of one tier sequentially, log to /tmp
TIER=${1:-quick}
cd /verif
for p in $(python3 -c "import props; print(' '.join(sorted(props.PROPS)))"); do
  echo "=== $p $(date +%T)"; python3 check.py $p --tier $TIER 2>&1 | tail -12; echo "exit=$?"
done
