"""Property table: which units decide which property, per tier."""
import itertools
import math
import os
import sys

sys.path.insert(0, os.path.join(os.path.dirname(os.path.abspath(__file__)), "lib"))
from kani_unit import Instance  # noqa: E402

TRUSTED_BASE = [
    "A1 (Verus units): Float arithmetic treated as an exact commutative ring via the uninterpreted abstraction rv and four "
    "external_body axioms in verus/prelude.rs (rounding, overflow, NaN, signed zero ignored)",
    "A2 (Kani instances with sums/products): values are symbolic small integers as Float (exact domain); extension to all "
    "floats relies on the operations being value-parametric (not machine-checked)",
    "A3 (Kani): std::rc::Rc::drop_slow stubbed to a no-op (deallocation not modelled) except in *_realdrop harnesses",
    "A4 transcendental functions (exp, ln, powf) are libm externals: Kani instances use arguments for which CBMC's float "
    "model is exact or compare against the same library call",
    "Kani instances are BOUNDED: one concrete shape / graph class per instance, unwinding assertions on; they are never "
    "counted as proofs",
    "rustc type/borrow checker; Verus 0.2026.09.13 + Z3; Kani 0.68 codegen + CBMC 6.11 + CaDiCaL; the extractor (lib/rustlex.py, "
    "lib/verus_unit.py: rewrites R1-R3 only) and the harness generator",
    "cbmc is run with --no-pointer-check/--no-bounds-check as Kani itself does (Rust's own bounds checks are compiled into "
    "assertions and are checked); BLAS feature off",
]


def dn(d):
    return "x".join(str(x) for x in d) if d else "none"


def lit(d):
    return ",".join(str(x) for x in d)


def prod(d):
    return math.prod(d) if d else 1


def bcast(a, b):
    n = max(len(a), len(b))
    out = []
    for k in range(1, n + 1):
        da = a[-k] if k <= len(a) else 1
        db = b[-k] if k <= len(b) else 1
        if not (da == db or da == 1 or db == 1):
            return None
        out.append(max(da, db))
    return list(reversed(out))


# ------------------------------------------------------------------------------------------ C04
EW_OPS = {"add": 0, "sub": 1, "mul": 2, "div": 3, "axpy": 4}


def ew_inst(op, a, b, full=False):
    name = "c04_%s%s__%s__%s" % (op, "_fullf" if full else "", dn(a), dn(b))
    compat = bcast(a, b) is not None
    n = max(prod(a), prod(b), prod(bcast(a, b) or [1]))
    src = "ew_instance!(%s, %d, %d, [%s], [%s], %s);" % (name, n + 6, EW_OPS[op], lit(a), lit(b), "true" if full else "false")
    return Instance(name, src, expect_panic=not compat, function="<&Array as %s<&Array>>" % op,
                    contract="C04: dims = pairwise max; out[i] = f(a[i|a], b[i|b]) bitwise; operands unchanged; "
                             "incompatible shapes panic",
                    bounds="shapes %s / %s concrete; values symbolic (%s)" % (a, b, "all bit patterns" if full else "integers in [-4,4]"),
                    descr="element-wise %s on %s and %s" % (op, a, b))


def shapes_upto(rank, sizes):
    out = []
    for r in range(1, rank + 1):
        out += [list(t) for t in itertools.product(sizes, repeat=r)]
    return out


EW_REPRESENTATIVES = [
    # every alignment class of a lower-rank / unit-dimension operand (derived from sliced_op's
    # carry/advance structure): equal shapes, trailing, leading, middle unit dims, both sides
    # broadcasting, rank gap 1 and 2, leading unit followed by non-unit, scalar-like [1]
    ([2, 3], [2, 3]), ([2, 3], [3]), ([3], [2, 3]), ([2, 3], [1]), ([2, 3], [2, 1]), ([2, 1], [1, 3]),
    ([2, 2, 3], [2, 3]), ([2, 2, 3], [3]), ([2, 2, 3], [2, 1, 3]), ([2, 2, 3], [1, 2, 3]), ([1, 2, 3], [2, 2, 3]),
    ([2, 1, 2], [1, 2]), ([2, 2, 2], [2, 1, 1]), ([2, 1, 2, 2], [2, 1, 2]), ([2, 2, 1, 2], [2, 2, 2]),
    ([3, 2, 2], [3, 1, 2]), ([2, 3], [2]), ([2, 2], [3, 2]), ([2, 3, 2], [2, 2, 2]),
]


def c04_instances(tier):
    insts = []
    if tier == "quick":
        for a, b in EW_REPRESENTATIVES:
            insts.append(ew_inst("add", a, b))
        for op in ("sub", "mul", "div", "axpy"):
            for a, b in EW_REPRESENTATIVES[6:11]:
                insts.append(ew_inst(op, a, b))
    else:
        seen = set()
        for a in shapes_upto(3, (1, 2)):
            for b in shapes_upto(3, (1, 2)):
                insts.append(ew_inst("add", a, b))
                seen.add((tuple(a), tuple(b)))
        for a, b in EW_REPRESENTATIVES:
            if (tuple(a), tuple(b)) not in seen:
                insts.append(ew_inst("add", a, b))
            for op in ("sub", "mul", "div", "axpy"):
                insts.append(ew_inst(op, a, b))
        for op in EW_OPS:
            insts.append(ew_inst(op, [2, 2], [2], full=True))
    return insts


# ------------------------------------------------------------------------------------------ C05
def mm_expect(a, at, b, bt):
    def view(d, t):
        if len(d) >= 2:
            lead, r, c = d[:-2], d[-2], d[-1]
        else:
            lead, r, c = [], 1, d[0]
        return (lead, c, r) if t else (lead, r, c)
    la, rows, n1 = view(a, at)
    lb, n2, cols = view(b, bt or (len(a) == 1 and len(b) == 1 and not at))
    lead = bcast(la, lb)
    if n1 != n2 or lead is None:
        return None
    if len(a) < 2 and len(b) < 2:
        return [cols]
    return lead + [rows, cols]


def mm_inst(a, at, b, bt, c=()):
    e = mm_expect(a, at, b, bt)
    name = "c05_mm__%s%s__%s%s__c%s" % (dn(a), "t" if at else "", dn(b), "t" if bt else "", dn(c))
    n = max(prod(a), prod(b), prod(e or [1]))
    src = "mm_instance!(%s, %d, [%s], %s, [%s], %s, [%s], [%s]);" % (
        name, n + 8, lit(a), "true" if at else "false", lit(b), "true" if bt else "false", lit(c), lit(e or []))
    return Instance(name, src, expect_panic=e is None, function="Array::matmul",
                    contract="C05: dims = [lead..., rows, cols]; out[l,r,j] = sum_k op(A)[l,r,k]*op(B)[l,k,j] + c; mismatch panics",
                    bounds="shapes %s%s x %s%s, c=%s concrete; values symbolic integers in [-4,4]" % (a, "^T" if at else "", b, "^T" if bt else "", list(c)),
                    descr="matmul")


def c05_instances(tier):
    I = []
    # four transposition combinations on non-square operands
    I += [mm_inst([2, 3], False, [3, 2], False), mm_inst([3, 2], True, [3, 2], False),
          mm_inst([2, 3], False, [2, 3], True), mm_inst([3, 2], True, [2, 3], True)]
    # additive term forms
    I += [mm_inst([2, 3], False, [3, 2], False, [2]), mm_inst([2, 3], False, [3, 2], False, [2, 2]),
          mm_inst([2, 3], False, [3, 2], False, [1, 2]), mm_inst([2, 3], False, [3, 2], False, [1])]
    # leading dimensions: equal, lower-rank operand, unit leading dims
    I += [mm_inst([2, 2, 1], False, [2, 1, 2], False), mm_inst([2, 1, 2], False, [2, 1], False),
          mm_inst([1, 2], False, [2, 2, 1], False), mm_inst([2, 1, 2], False, [1, 2, 1], False)]
    # mismatching inner dimension is refused
    I += [mm_inst([2, 3], False, [2, 2], False), mm_inst([2, 3], True, [3, 2], False)]
    # rank-1 forms
    I += [mm_inst([3], False, [3, 2], False), mm_inst([2, 3], False, [3], True), mm_inst([3], False, [3], False)]
    if tier == "thorough":
        for (r, n, c) in [(1, 2, 3), (3, 1, 2), (2, 2, 2), (1, 1, 1), (3, 2, 1)]:
            for at in (False, True):
                for bt in (False, True):
                    a = [n, r] if at else [r, n]
                    b = [c, n] if bt else [n, c]
                    I.append(mm_inst(a, at, b, bt))
        I += [mm_inst([2, 1, 2, 1], False, [1, 2, 1, 2], False), mm_inst([2, 2, 1, 2], False, [2, 2, 2, 1], True, [1]),
              mm_inst([2, 2, 3], True, [2, 2, 2], False, [1, 2]), mm_inst([1, 2, 2], False, [2, 2, 2], False),
              mm_inst([2, 2, 2], False, [1, 2, 2], True, [2, 2]), mm_inst([2, 3], False, [3, 2, 2], False),
              mm_inst([3], False, [2, 3, 2], False), mm_inst([3], False, [2], False), mm_inst([2], False, [3], False)]
        seen = set()
        I = [i for i in I if not (i.name in seen or seen.add(i.name))]
    return I


# ------------------------------------------------------------------------------------------ table
_WIP = "check not built yet in this round (work in progress; see DESIGN.md section 6 for the planned contract)"
NOT_APPLICABLE = {k: _WIP for k in ["C01", "C02", "C03", "C06", "C07", "C08", "C09", "C10", "C11", "C12", "C13", "C14", "C15",
                                    "C16", "C17", "C18", "C19"]}

PROPS = {
    "C04": {
        "level": "model_checking",
        "technique": "bounded contract checking (Kani/CBMC) of the real element-wise operators per concrete shape pair, symbolic values",
        "level_text": "Bounded, not a proof: for every shape pair of the table (all alignment classes of sliced_op's broadcast walk; "
                      "thorough: all ordered pairs of shapes of rank <= 3 over sizes {1,2}) CBMC decides the C04 postcondition for all "
                      "values of the domain, or that the call panics for incompatible shapes. The unbounded part of the broadcast walk "
                      "(slice_offset for every rank and size) is a Verus obligation.",
        "level_note": "shapes concrete per instance; values symbolic integers in [-4,4] (one full-bit-pattern instance per operator in "
                      "the thorough tier); Rc::drop_slow stubbed; A1 for the Verus unit",
        "kani_groups": ["h_elementwise.rs"],
        "instances": c04_instances,
        "explanation": "Bounded contract check (Kani/CBMC on the real crate): for each concrete shape pair the harness states C04 "
                       "verbatim (dims = pairwise maximum, every element = scalar op at the right-aligned broadcast index, bitwise; "
                       "incompatible pairs must panic) and CBMC proves it for all values of the stated domain.",
    },
    "C05": {
        "level": "other",
        "technique": "Verus proof of the extracted matmul_slice kernel (all sizes, all transpositions) + bounded Kani contract "
                     "instances of Array::matmul",
        "level_text": "Kernel: unbounded deductive proof (Verus/Z3) on the verbatim function text. Shape derivation, batch iteration, "
                      "additive term, rank-1 forms, refusals: bounded Kani instances per concrete shape class, symbolic values. The "
                      "composition of the two is argued in DESIGN.md, not machine-checked.",
        "level_note": "A1 (floats as exact ring) for the kernel proof; A2 exact value domain and concrete shapes for the instances; "
                      "Rc::drop_slow stubbed",
        "verus": ["V1_matmul_slice"],
        "kani_groups": ["h_matmul.rs"],
        "instances": c05_instances,
        "explanation": "Unbounded: Verus proves the real text of matmul_slice against the C05 index maps for every size and all four "
                       "transposition combinations (every output cell = old + sum_k op(A)[r][k]*op(B)[k][j], no out-of-bounds index, "
                       "no usize overflow), under A1. Bounded: Kani instances check Array::matmul (shape derivation, batch iteration, "
                       "additive-term broadcast, rank-1 forms, refusal of mismatching inner dimensions) per concrete shape class. "
                       "obligations/discharged count only the Verus obligations; bounded_* count the Kani instances.",
    },
}


# ------------------------------------------------------------------------------------------ K-graph
G = {"ADD": 0, "MUL": 1, "SUB": 2, "NEG": 3, "SCALE": 4, "UMUL": 5, "UNTRACK": 6, "CLONE": 7}
MODES = {0: "seed", 1: "default", 2: "twice", 3: "clear+ones", 4: "mid-then-root"}


def graph_inst(tag, nodes, nl=2, tracked=None, root=None, mode=0, mid=0, dims=(1,), prop="C01"):
    tracked = tracked if tracked is not None else [True] * nl
    total = nl + len(nodes)
    root = total - 1 if root is None else root
    name = "g_%s__t%s__r%d__m%d%s" % (tag, "".join("1" if t else "0" for t in tracked), root, mode,
                                      "" if tuple(dims) == (1,) else "__d" + dn(dims))
    ns = ", ".join("(%d, %d, %d)" % (G[o], i, j) for (o, i, j) in nodes)
    src = "graph_instance!(%s, %d, [%s], %d, [%s], [%s], %d, %d, %d);" % (
        name, max(12, prod(dims) + total + 6), lit(dims), nl, ", ".join("true" if t else "false" for t in tracked), ns, root, mode, mid)
    return Instance(name, src, function="Array::backward / propagate_consumers",
                    contract="backward contract on one graph class: C01 gradients = forward-mode derivative, C03 dims, C08 frame, "
                             "C09 flags/untracked, C10 Clean + additivity, C11 one invocation with complete adjoint",
                    bounds="graph %s over %d leaves (tracked=%s), root node %d, pass mode %s, array dims %s; values and seed symbolic in [-4,4]"
                           % (nodes, nl, tracked, root, MODES[mode], list(dims)),
                    descr="graph " + tag, timeout=900)


GRAPHS = {
    "chain": [("MUL", 0, 1), ("ADD", 2, 0), ("NEG", 3, 3)],
    "diamond": [("MUL", 0, 1), ("MUL", 2, 0), ("ADD", 2, 3)],
    "selfprod3": [("MUL", 0, 0), ("MUL", 2, 2), ("MUL", 3, 3)],
    "shared": [("ADD", 0, 1), ("MUL", 0, 1), ("SUB", 2, 3)],
    "untracked_mid": [("MUL", 0, 1), ("UNTRACK", 2, 2), ("MUL", 3, 0), ("ADD", 4, 2)],
    "user_diamond": [("UMUL", 0, 1), ("UMUL", 2, 2), ("ADD", 3, 2)],
    "user_chain": [("UMUL", 0, 1), ("UMUL", 2, 0), ("UMUL", 3, 2)],
    "clone": [("CLONE", 0, 0), ("MUL", 0, 2), ("ADD", 3, 1)],
    "side_consumer": [("MUL", 0, 1), ("ADD", 2, 0), ("MUL", 2, 2)],
    "scale_sub": [("SCALE", 0, 0), ("SUB", 2, 1), ("MUL", 3, 3)],
}


def _rand_graphs(seed, count, n_nodes, ops=("ADD", "MUL", "SUB", "UMUL", "NEG", "SCALE")):
    import random
    rng = random.Random(seed * 7919 + n_nodes)
    out = []
    for c in range(count):
        nodes = []
        for k in range(n_nodes):
            avail = 2 + k
            nodes.append((rng.choice(ops), rng.randrange(avail), rng.randrange(avail)))
        out.append(("rnd%d_%d_%d" % (n_nodes, seed, c), nodes))
    return out


def c01_instances(tier):
    gi = graph_inst
    I = [gi("diamond", GRAPHS["diamond"]), gi("selfprod3", GRAPHS["selfprod3"], mode=1),
         gi("shared", GRAPHS["shared"], tracked=[True, False]), gi("user_chain", GRAPHS["user_chain"])]
    if tier == "thorough":
        seed = int(os.environ.get("VERIF_SEED", "0") or 0)
        for tag, nodes in GRAPHS.items():
            I.append(gi(tag, nodes))
            I.append(gi(tag, nodes, mode=1, tracked=[False, True]))
        I += [gi("diamond", GRAPHS["diamond"], dims=(2,)), gi("selfprod3", GRAPHS["selfprod3"], dims=(2, 2)),
              gi("side_consumer", GRAPHS["side_consumer"], root=3)]
        for tag, nodes in _rand_graphs(seed, 10, 2) + _rand_graphs(seed, 8, 3) + _rand_graphs(seed, 4, 4):
            I.append(gi(tag, nodes))
        seen = set()
        I = [i for i in I if not (i.name in seen or seen.add(i.name))]
    return I


def c10_instances(tier):
    gi = graph_inst
    I = [gi("diamond", GRAPHS["diamond"], mode=2), gi("diamond", GRAPHS["diamond"], mode=4, mid=2),
         gi("shared", GRAPHS["shared"], mode=3)]
    if tier == "thorough":
        for tag in ("chain", "selfprod3", "user_diamond", "untracked_mid", "clone"):
            I.append(gi(tag, GRAPHS[tag], mode=2))
            I.append(gi(tag, GRAPHS[tag], mode=3))
        I += [gi("selfprod3", GRAPHS["selfprod3"], mode=4, mid=3), gi("user_chain", GRAPHS["user_chain"], mode=4, mid=2),
              gi("side_consumer", GRAPHS["side_consumer"], mode=4, mid=3, root=4),
              gi("diamond", GRAPHS["diamond"], mode=2, tracked=[True, False]),
              gi("diamond", GRAPHS["diamond"], mode=2, dims=(2,))]
    return I


def c11_instances(tier):
    gi = graph_inst
    I = [gi("user_diamond", GRAPHS["user_diamond"]), gi("user_chain", GRAPHS["user_chain"], mode=2),
         gi("side_consumer", GRAPHS["side_consumer"], root=3)]
    if tier == "thorough":
        U = {"user_selfprod3": [("UMUL", 0, 0), ("UMUL", 2, 2), ("UMUL", 3, 3)],
             "user_fan": [("UMUL", 0, 1), ("UMUL", 2, 0), ("UMUL", 2, 1), ("ADD", 3, 4)],
             "user_mixed": [("UMUL", 0, 1), ("MUL", 2, 0), ("UMUL", 3, 2)]}
        for tag, nodes in U.items():
            I.append(gi(tag, nodes))
            I.append(gi(tag, nodes, mode=4, mid=2 + 1))
        I += [gi("user_diamond", GRAPHS["user_diamond"], tracked=[True, False]), gi("user_chain", GRAPHS["user_chain"], mode=4, mid=3),
              gi("user_diamond", GRAPHS["user_diamond"], dims=(2,))]
        seed = int(os.environ.get("VERIF_SEED", "0") or 0)
        for tag, nodes in _rand_graphs(seed + 1, 6, 3, ops=("UMUL", "UMUL", "ADD", "MUL")):
            I.append(gi(tag, nodes))
    return I


def c17_instances(tier):
    gi = graph_inst
    I = [gi("diamond", GRAPHS["diamond"], mode=3), gi("selfprod3", GRAPHS["selfprod3"], mode=0, dims=(2,)),
         gi("scale_sub", GRAPHS["scale_sub"], mode=3)]
    if tier == "thorough":
        for tag in ("chain", "shared", "user_diamond", "untracked_mid", "clone", "user_chain"):
            I.append(gi(tag, GRAPHS[tag], mode=3))
            I.append(gi(tag, GRAPHS[tag], mode=0, dims=(2,)))
    return I


_GRAPH_TEXT = ("Bounded (Kani/CBMC on the real crate, cbmc --max-field-sensitivity-array-size so that the Rc/Cell graph walk is "
               "executed precisely): for each concrete graph class the harness builds the graph with the real operations (and user "
               "operations through Array::op), runs the real backward pass(es) with symbolic values and seed, and asserts the "
               "contract of backward: gradients equal an independent forward-mode derivative of the same node list, Clean(G) before "
               "and after, flags and values unchanged, user derivative closures invoked exactly once with the complete adjoint. "
               "No unbounded contract for the walk is dischargeable with Verus/Kani as installed (Rc<Cell>, dyn closures); the "
               "composition over all programs is not machine-checked.")
_GRAPH_NOTE = ("graph classes concrete (<= 6 nodes, arrays of 1-4 elements), values/seeds symbolic integers in [-4,4] (A2), "
               "Rc::drop_slow stubbed (A3); graph families listed in the evidence; thorough adds VERIF_SEED-sampled random node lists")

PROPS.update({
    "C01": {"level": "model_checking", "kani_groups": ["h_graph.rs"], "instances": c01_instances,
            "technique": "bounded contract checking (Kani/CBMC) of the real backward pass on concrete graph classes against a forward-mode oracle",
            "level_text": _GRAPH_TEXT, "level_note": _GRAPH_NOTE, "explanation": _GRAPH_TEXT,
            "not_decided": ["the lifting from the checked graph classes to all programs (induction over the pass) is not machine-checked"]},
    "C10": {"level": "model_checking", "kani_groups": ["h_graph.rs"], "instances": c10_instances,
            "technique": "bounded contract checking (Kani/CBMC): repeated / interleaved backward passes on concrete graph classes, Clean(G) invariant",
            "level_text": _GRAPH_TEXT, "level_note": _GRAPH_NOTE, "explanation": _GRAPH_TEXT},
    "C11": {"level": "model_checking", "kani_groups": ["h_graph.rs"], "instances": c11_instances,
            "technique": "bounded contract checking (Kani/CBMC): user-operation graphs with invocation counters and recorded adjoints",
            "level_text": _GRAPH_TEXT, "level_note": _GRAPH_NOTE, "explanation": _GRAPH_TEXT},
    "C17": {"level": "model_checking", "kani_groups": ["h_graph.rs"], "instances": c17_instances,
            "technique": "bounded contract checking (Kani/CBMC): gradient = symbolic seed x seed-independent derivative (linearity), "
                         "default seed vs explicit ones bitwise",
            "level_text": _GRAPH_TEXT, "level_note": _GRAPH_NOTE, "explanation": _GRAPH_TEXT},
})
for _k in ("C01", "C10", "C11", "C17"):
    NOT_APPLICABLE.pop(_k, None)
