"""Property table: which units decide which property, per tier."""
import itertools
import math
import os
import sys

sys.path.insert(0, os.path.join(os.path.dirname(os.path.abspath(__file__)), "lib"))
from kani_unit import Instance  # noqa: E402

TRUSTED_BASE = [
    "A1 (Verus units): Float arithmetic treated as an exact commutative ring via the uninterpreted abstraction rv and four "
    "external_body axioms in verus/prelude.rs (rounding, overflow, NaN, signed zero ignored)",
    "A2 (Kani instances with sums/products): values are symbolic small integers as Float (exact domain); extension to all "
    "floats relies on the operations being value-parametric (not machine-checked)",
    "A3 (Kani): std::rc::Rc::drop_slow stubbed to a no-op (deallocation not modelled) except in *_realdrop harnesses",
    "A4 transcendental functions (exp, ln, powf) are libm externals: Kani instances use arguments for which CBMC's float "
    "model is exact or compare against the same library call",
    "Kani instances are BOUNDED: one concrete shape / graph class per instance, unwinding assertions on; they are never "
    "counted as proofs",
    "rustc type/borrow checker; Verus 0.2026.09.13 + Z3; Kani 0.68 codegen + CBMC 6.11 + CaDiCaL; the extractor (lib/rustlex.py, "
    "lib/verus_unit.py: rewrites R1-R3 only) and the harness generator",
    "cbmc is run with --no-pointer-check/--no-bounds-check as Kani itself does (Rust's own bounds checks are compiled into "
    "assertions and are checked); BLAS feature off",
]


def dn(d):
    return "x".join(str(x) for x in d) if d else "none"


def lit(d):
    return ",".join(str(x) for x in d)


def prod(d):
    return math.prod(d) if d else 1


def bcast(a, b):
    n = max(len(a), len(b))
    out = []
    for k in range(1, n + 1):
        da = a[-k] if k <= len(a) else 1
        db = b[-k] if k <= len(b) else 1
        if not (da == db or da == 1 or db == 1):
            return None
        out.append(max(da, db))
    return list(reversed(out))


# ------------------------------------------------------------------------------------------ C04
EW_OPS = {"add": 0, "sub": 1, "mul": 2, "div": 3, "axpy": 4}


def ew_inst(op, a, b, full=False):
    name = "c04_%s%s__%s__%s" % (op, "_fullf" if full else "", dn(a), dn(b))
    compat = bcast(a, b) is not None
    n = max(prod(a), prod(b), prod(bcast(a, b) or [1]))
    src = "ew_instance!(%s, %d, %d, [%s], [%s], %s);" % (name, n + 6, EW_OPS[op], lit(a), lit(b), "true" if full else "false")
    return Instance(name, src, expect_panic=not compat, function="<&Array as %s<&Array>>" % op,
                    contract="C04: dims = pairwise max; out[i] = f(a[i|a], b[i|b]) bitwise; operands unchanged; "
                             "incompatible shapes panic",
                    bounds="shapes %s / %s concrete; values symbolic (%s)" % (a, b, "all bit patterns" if full else "integers in [-4,4]"),
                    descr="element-wise %s on %s and %s" % (op, a, b))


def shapes_upto(rank, sizes):
    out = []
    for r in range(1, rank + 1):
        out += [list(t) for t in itertools.product(sizes, repeat=r)]
    return out


EW_REPRESENTATIVES = [
    # every alignment class of a lower-rank / unit-dimension operand (derived from sliced_op's
    # carry/advance structure): equal shapes, trailing, leading, middle unit dims, both sides
    # broadcasting, rank gap 1 and 2, leading unit followed by non-unit, scalar-like [1]
    ([2, 3], [2, 3]), ([2, 3], [3]), ([3], [2, 3]), ([2, 3], [1]), ([2, 3], [2, 1]), ([2, 1], [1, 3]),
    ([2, 2, 3], [2, 3]), ([2, 2, 3], [3]), ([2, 2, 3], [2, 1, 3]), ([2, 2, 3], [1, 2, 3]), ([1, 2, 3], [2, 2, 3]),
    ([2, 1, 2], [1, 2]), ([2, 2, 2], [2, 1, 1]), ([2, 1, 2, 2], [2, 1, 2]), ([2, 2, 1, 2], [2, 2, 2]),
    ([3, 2, 2], [3, 1, 2]), ([2, 3], [2]), ([2, 2], [3, 2]), ([2, 3, 2], [2, 2, 2]),
]


def c04_instances(tier):
    insts = []
    if tier == "quick":
        for a, b in EW_REPRESENTATIVES:
            insts.append(ew_inst("add", a, b))
        for op in ("sub", "mul", "div", "axpy"):
            for a, b in EW_REPRESENTATIVES[6:11]:
                insts.append(ew_inst(op, a, b))
    else:
        seen = set()
        for a in shapes_upto(3, (1, 2)):
            for b in shapes_upto(3, (1, 2)):
                insts.append(ew_inst("add", a, b))
                seen.add((tuple(a), tuple(b)))
        for a, b in EW_REPRESENTATIVES:
            if (tuple(a), tuple(b)) not in seen:
                insts.append(ew_inst("add", a, b))
            for op in ("sub", "mul", "div", "axpy"):
                insts.append(ew_inst(op, a, b))
        for op in EW_OPS:
            insts.append(ew_inst(op, [2, 2], [2], full=True))
    return insts


# ------------------------------------------------------------------------------------------ C05
def mm_expect(a, at, b, bt):
    def view(d, t):
        if len(d) >= 2:
            lead, r, c = d[:-2], d[-2], d[-1]
        else:
            lead, r, c = [], 1, d[0]
        return (lead, c, r) if t else (lead, r, c)
    la, rows, n1 = view(a, at)
    lb, n2, cols = view(b, bt or (len(a) == 1 and len(b) == 1 and not at))
    lead = bcast(la, lb)
    if n1 != n2 or lead is None:
        return None
    if len(a) < 2 and len(b) < 2:
        return [cols]
    return lead + [rows, cols]


def mm_inst(a, at, b, bt, c=()):
    e = mm_expect(a, at, b, bt)
    name = "c05_mm__%s%s__%s%s__c%s" % (dn(a), "t" if at else "", dn(b), "t" if bt else "", dn(c))
    n = max(prod(a), prod(b), prod(e or [1]))
    src = "mm_instance!(%s, %d, [%s], %s, [%s], %s, [%s], [%s]);" % (
        name, n + 8, lit(a), "true" if at else "false", lit(b), "true" if bt else "false", lit(c), lit(e or []))
    return Instance(name, src, expect_panic=e is None, function="Array::matmul",
                    contract="C05: dims = [lead..., rows, cols]; out[l,r,j] = sum_k op(A)[l,r,k]*op(B)[l,k,j] + c; mismatch panics",
                    bounds="shapes %s%s x %s%s, c=%s concrete; values symbolic integers in [-4,4]" % (a, "^T" if at else "", b, "^T" if bt else "", list(c)),
                    descr="matmul")


def c05_instances(tier):
    I = []
    # four transposition combinations on non-square operands
    I += [mm_inst([2, 3], False, [3, 2], False), mm_inst([3, 2], True, [3, 2], False),
          mm_inst([2, 3], False, [2, 3], True), mm_inst([3, 2], True, [2, 3], True)]
    # additive term forms
    I += [mm_inst([2, 3], False, [3, 2], False, [2]), mm_inst([2, 3], False, [3, 2], False, [2, 2]),
          mm_inst([2, 3], False, [3, 2], False, [1, 2]), mm_inst([2, 3], False, [3, 2], False, [1])]
    # leading dimensions: equal, lower-rank operand, unit leading dims
    I += [mm_inst([2, 2, 1], False, [2, 1, 2], False), mm_inst([2, 1, 2], False, [2, 1], False),
          mm_inst([1, 2], False, [2, 2, 1], False), mm_inst([2, 1, 2], False, [1, 2, 1], False)]
    # mismatching inner dimension is refused
    I += [mm_inst([2, 3], False, [2, 2], False), mm_inst([2, 3], True, [3, 2], False)]
    # rank-1 forms
    I += [mm_inst([3], False, [3, 2], False), mm_inst([2, 3], False, [3], True), mm_inst([3], False, [3], False)]
    if tier == "thorough":
        for (r, n, c) in [(1, 2, 3), (3, 1, 2), (2, 2, 2), (1, 1, 1), (3, 2, 1)]:
            for at in (False, True):
                for bt in (False, True):
                    a = [n, r] if at else [r, n]
                    b = [c, n] if bt else [n, c]
                    I.append(mm_inst(a, at, b, bt))
        I += [mm_inst([2, 1, 2, 1], False, [1, 2, 1, 2], False), mm_inst([2, 2, 1, 2], False, [2, 2, 2, 1], True, [1]),
              mm_inst([2, 2, 3], True, [2, 2, 2], False, [1, 2]), mm_inst([1, 2, 2], False, [2, 2, 2], False),
              mm_inst([2, 2, 2], False, [1, 2, 2], True, [2, 2]), mm_inst([2, 3], False, [3, 2, 2], False),
              mm_inst([3], False, [2, 3, 2], False), mm_inst([3], False, [2], False), mm_inst([2], False, [3], False)]
        seen = set()
        I = [i for i in I if not (i.name in seen or seen.add(i.name))]
    return I


# ------------------------------------------------------------------------------------------ table
_WIP = "check not built yet in this round (work in progress; see DESIGN.md section 6 for the planned contract)"
NOT_APPLICABLE = {k: _WIP for k in ["C01", "C02", "C03", "C06", "C07", "C08", "C09", "C10", "C11", "C12", "C13", "C14", "C15",
                                    "C16", "C17", "C18", "C19"]}

PROPS = {
    "C04": {
        "level": "model_checking",
        "technique": "bounded contract checking (Kani/CBMC) of the real element-wise operators per concrete shape pair, symbolic values",
        "level_text": "Bounded, not a proof: for every shape pair of the table (all alignment classes of sliced_op's broadcast walk; "
                      "thorough: all ordered pairs of shapes of rank <= 3 over sizes {1,2}) CBMC decides the C04 postcondition for all "
                      "values of the domain, or that the call panics for incompatible shapes. The unbounded part of the broadcast walk "
                      "(slice_offset for every rank and size) is a Verus obligation.",
        "level_note": "shapes concrete per instance; values symbolic integers in [-4,4] (one full-bit-pattern instance per operator in "
                      "the thorough tier); Rc::drop_slow stubbed; A1 for the Verus unit",
        "kani_groups": ["h_elementwise.rs"],
        "instances": c04_instances,
        "explanation": "Bounded contract check (Kani/CBMC on the real crate): for each concrete shape pair the harness states C04 "
                       "verbatim (dims = pairwise maximum, every element = scalar op at the right-aligned broadcast index, bitwise; "
                       "incompatible pairs must panic) and CBMC proves it for all values of the stated domain.",
    },
    "C05": {
        "level": "other",
        "technique": "Verus proof of the extracted matmul_slice kernel (all sizes, all transpositions) + bounded Kani contract "
                     "instances of Array::matmul",
        "level_text": "Kernel: unbounded deductive proof (Verus/Z3) on the verbatim function text. Shape derivation, batch iteration, "
                      "additive term, rank-1 forms, refusals: bounded Kani instances per concrete shape class, symbolic values. The "
                      "composition of the two is argued in DESIGN.md, not machine-checked.",
        "level_note": "A1 (floats as exact ring) for the kernel proof; A2 exact value domain and concrete shapes for the instances; "
                      "Rc::drop_slow stubbed",
        "verus": ["V1_matmul_slice"],
        "kani_groups": ["h_matmul.rs"],
        "instances": c05_instances,
        "explanation": "Unbounded: Verus proves the real text of matmul_slice against the C05 index maps for every size and all four "
                       "transposition combinations (every output cell = old + sum_k op(A)[r][k]*op(B)[k][j], no out-of-bounds index, "
                       "no usize overflow), under A1. Bounded: Kani instances check Array::matmul (shape derivation, batch iteration, "
                       "additive-term broadcast, rank-1 forms, refusal of mismatching inner dimensions) per concrete shape class. "
                       "obligations/discharged count only the Verus obligations; bounded_* count the Kani instances.",
    },
}
