"""Property table: which units decide which property, per tier."""
import itertools
import math
import os
import sys

sys.path.insert(0, os.path.join(os.path.dirname(os.path.abspath(__file__)), "lib"))
from kani_unit import Instance  # noqa: E402

TRUSTED_BASE = [
    "A1 (Verus units): Float arithmetic treated as an exact commutative ring via the uninterpreted abstraction rv and four "
    "external_body axioms in verus/prelude.rs (rounding, overflow, NaN, signed zero ignored)",
    "A2 (Kani instances with sums/products): values are symbolic small integers as Float (exact domain); extension to all "
    "floats relies on the operations being value-parametric (not machine-checked)",
    "A3 (Kani): std::rc::Rc::drop_slow stubbed to a no-op (deallocation not modelled) except in *_realdrop harnesses",
    "A4 transcendental functions (exp, ln, powf) are libm externals: Kani instances use arguments for which CBMC's float "
    "model is exact or compare against the same library call",
    "Kani instances are BOUNDED: one concrete shape / graph class per instance, unwinding assertions on; they are never "
    "counted as proofs",
    "rustc type/borrow checker; Verus 0.2026.09.13 + Z3; Kani 0.68 codegen + CBMC 6.11 + CaDiCaL; the extractor (lib/rustlex.py, "
    "lib/verus_unit.py: rewrites R1-R3 only) and the harness generator",
    "cbmc is run with --no-pointer-check/--no-bounds-check as Kani itself does (Rust's own bounds checks are compiled into "
    "assertions and are checked); BLAS feature off",
]


def dn(d):
    return "x".join(str(x) for x in d) if d else "none"


def lit(d):
    return ",".join(str(x) for x in d)


def prod(d):
    return math.prod(d) if d else 1


def bcast(a, b):
    n = max(len(a), len(b))
    out = []
    for k in range(1, n + 1):
        da = a[-k] if k <= len(a) else 1
        db = b[-k] if k <= len(b) else 1
        if not (da == db or da == 1 or db == 1):
            return None
        out.append(max(da, db))
    return list(reversed(out))


# ------------------------------------------------------------------------------------------ C04
EW_OPS = {"add": 0, "sub": 1, "mul": 2, "div": 3, "axpy": 4, "axpy0": 5}


def ew_inst(op, a, b, full=False):
    name = "c04_%s%s__%s__%s" % (op, "_fullf" if full else "", dn(a), dn(b))
    compat = bcast(a, b) is not None
    n = max(prod(a), prod(b), prod(bcast(a, b) or [1]))
    src = "ew_instance!(%s, %d, %d, [%s], [%s], %s);" % (name, n + 6, EW_OPS[op], lit(a), lit(b), "true" if full else "false")
    return Instance(name, src, expect_panic=not compat, function="<&Array as %s<&Array>>" % op,
                    contract="C04: dims = pairwise max; out[i] = f(a[i|a], b[i|b]) bitwise; operands unchanged; "
                             "incompatible shapes panic",
                    bounds="shapes %s / %s concrete; values symbolic (%s)" % (a, b, "all bit patterns" if full else "integers in [-4,4]"),
                    descr="element-wise %s on %s and %s" % (op, a, b))


def shapes_upto(rank, sizes):
    out = []
    for r in range(1, rank + 1):
        out += [list(t) for t in itertools.product(sizes, repeat=r)]
    return out


EW_REPRESENTATIVES = [
    # every alignment class of a lower-rank / unit-dimension operand (derived from sliced_op's
    # carry/advance structure): equal shapes, trailing, leading, middle unit dims, both sides
    # broadcasting, rank gap 1 and 2, leading unit followed by non-unit, scalar-like [1]
    ([2, 3], [2, 3]), ([2, 3], [3]), ([3], [2, 3]), ([2, 3], [1]), ([2, 3], [2, 1]), ([2, 1], [1, 3]),
    ([2, 2, 3], [2, 3]), ([2, 2, 3], [3]), ([2, 2, 3], [2, 1, 3]), ([2, 2, 3], [1, 2, 3]), ([1, 2, 3], [2, 2, 3]),
    ([2, 1, 2], [1, 2]), ([2, 2, 2], [2, 1, 1]), ([2, 1, 2, 2], [2, 1, 2]), ([2, 2, 1, 2], [2, 2, 2]),
    ([3, 2, 2], [3, 1, 2]), ([2, 3], [2]), ([2, 2], [3, 2]), ([2, 3, 2], [2, 2, 2]),
    ([2, 1], [1, 2]), ([2, 3], [3, 2]), ([1, 4], [2, 2]), ([3, 1, 2], [1, 3, 1]),
]


def ewd_insts(tier):
    out = []
    ranks = [(1, 1), (2, 1), (1, 3), (3, 3)] if tier == "quick" else [(a, b) for a in (1, 2, 3, 4) for b in (1, 2, 3, 4)]
    for ra, rb in ranks:
        for compat in (True, False):
            name = "c04_ewd_r%d_r%d_%s" % (ra, rb, "ok" if compat else "refuse")
            out.append(Instance(name, "ewd_instance!(%s, 12, %d, %d, %s);" % (name, ra, rb, str(compat).lower()), expect_panic=not compat,
                                function="element_wise_dimensions",
                                contract="compatible dims -> right-aligned pairwise maximum; incompatible -> panic",
                                bounds="ranks %d/%d concrete; every dimension SYMBOLIC in 1..3 (all %s pairs)" % (ra, rb, "compatible" if compat else "incompatible"),
                                descr="broadcast shape"))
    return out


def c04_instances(tier):
    insts = ewd_insts(tier)
    if tier == "quick":
        for a, b in EW_REPRESENTATIVES:
            insts.append(ew_inst("add", a, b))
        for op in ("sub", "mul", "axpy"):
            for a, b in (EW_REPRESENTATIVES[6], EW_REPRESENTATIVES[10]):
                insts.append(ew_inst(op, a, b))
        insts += [ew_inst("div", [2, 2], [2]), ew_inst("div", [1, 2], [2, 1, 2]), ew_inst("axpy0", [2, 2], [2]), ew_inst("axpy0", [2], [3])]
    else:
        seen = set()
        for a in shapes_upto(3, (1, 2)):
            for b in shapes_upto(3, (1, 2)):
                insts.append(ew_inst("add", a, b))
                seen.add((tuple(a), tuple(b)))
        for a, b in EW_REPRESENTATIVES:
            if (tuple(a), tuple(b)) not in seen:
                insts.append(ew_inst("add", a, b))
            for op in ("sub", "mul", "div", "axpy", "axpy0"):
                insts.append(ew_inst(op, a, b))
        for op in EW_OPS:
            if op != "div":   # full-bit-pattern division does not finish in CBMC's float encoding within 10 min
                insts.append(ew_inst(op, [2], [1], full=True))
    return insts


# ------------------------------------------------------------------------------------------ C05
def mm_expect(a, at, b, bt):
    def view(d, t):
        if len(d) >= 2:
            lead, r, c = d[:-2], d[-2], d[-1]
        else:
            lead, r, c = [], 1, d[0]
        return (lead, c, r) if t else (lead, r, c)
    la, rows, n1 = view(a, at)
    lb, n2, cols = view(b, bt or (len(a) == 1 and len(b) == 1 and not at))
    lead = bcast(la, lb)
    if n1 != n2 or lead is None:
        return None
    if len(a) < 2 and len(b) < 2:
        return [cols]
    return lead + [rows, cols]


def mm_inst(a, at, b, bt, c=()):
    e = mm_expect(a, at, b, bt)
    name = "c05_mm__%s%s__%s%s__c%s" % (dn(a), "t" if at else "", dn(b), "t" if bt else "", dn(c))
    n = max(prod(a), prod(b), prod(e or [1]))
    src = "mm_instance!(%s, %d, [%s], %s, [%s], %s, [%s], [%s]);" % (
        name, n + 8, lit(a), "true" if at else "false", lit(b), "true" if bt else "false", lit(c), lit(e or []))
    return Instance(name, src, expect_panic=e is None, function="Array::matmul",
                    contract="C05: dims = [lead..., rows, cols]; out[l,r,j] = sum_k op(A)[l,r,k]*op(B)[l,k,j] + c; mismatch panics",
                    bounds="shapes %s%s x %s%s, c=%s concrete; values symbolic integers in [-4,4]" % (a, "^T" if at else "", b, "^T" if bt else "", list(c)),
                    descr="matmul")


def c05_instances(tier):
    I = []
    # four transposition combinations on non-square operands
    I += [mm_inst([2, 3], False, [3, 2], False), mm_inst([3, 2], True, [3, 2], False),
          mm_inst([2, 3], False, [2, 3], True), mm_inst([3, 2], True, [2, 3], True)]
    # additive term forms
    I += [mm_inst([2, 3], False, [3, 2], False, [2]), mm_inst([2, 3], False, [3, 2], False, [2, 2]),
          mm_inst([2, 3], False, [3, 2], False, [1, 2]), mm_inst([2, 3], False, [3, 2], False, [1])]
    # leading dimensions: equal, lower-rank operand, unit leading dims
    I += [mm_inst([2, 2, 1], False, [2, 1, 2], False), mm_inst([2, 1, 2], False, [2, 1], False),
          mm_inst([1, 2], False, [2, 2, 1], False), mm_inst([2, 1, 2], False, [1, 2, 1], False),
          mm_inst([1, 2, 1], False, [2, 1, 2], False)]
    # mismatching inner dimension is refused
    I += [mm_inst([2, 3], False, [2, 2], False), mm_inst([2, 3], True, [3, 2], False)]
    # rank-1 forms
    I += [mm_inst([3], False, [3, 2], False), mm_inst([2, 3], False, [3], True), mm_inst([3], False, [3], False)]
    if tier == "thorough":
        for (r, n, c) in [(1, 2, 3), (3, 1, 2), (2, 2, 2), (1, 1, 1), (3, 2, 1)]:
            for at in (False, True):
                for bt in (False, True):
                    a = [n, r] if at else [r, n]
                    b = [c, n] if bt else [n, c]
                    I.append(mm_inst(a, at, b, bt))
        I += [mm_inst([2, 1, 2, 1], False, [1, 2, 1, 2], False), mm_inst([2, 2, 1, 2], False, [2, 2, 2, 1], True, [1]),
              mm_inst([2, 2, 3], True, [2, 2, 2], False, [1, 2]), mm_inst([1, 2, 2], False, [2, 2, 2], False),
              mm_inst([2, 2, 2], False, [1, 2, 2], True, [2, 2]), mm_inst([2, 3], False, [3, 2, 2], False),
              mm_inst([3], False, [2, 3, 2], False), mm_inst([3], False, [2], False), mm_inst([2], False, [3], False)]
        seen = set()
        I = [i for i in I if not (i.name in seen or seen.add(i.name))]
    return I


# ------------------------------------------------------------------------------------------ table
NOT_APPLICABLE = {
    "C14": "history property over forward/backward/update iterations; its inductive step needs Model::update -> Model::parameters "
           "(flat_map over Vec<&mut dyn Layer>), on which CBMC exhausts 30 GB / 10 min even for one dense layer and which Verus cannot "
           "model (dyn Layer, iterator adapters); no contract over a sequence of iterations is expressible in the installed tools. The "
           "other legs are decided under C15 (forward, loss, backward), C13 (optimizer step, fresh clean leaves), C01/C02 (exact "
           "gradients) and C10 (no residue). See DESIGN.md section 6.",
}

PROPS = {
    "C04": {
        "level": "other",
        "verus": ["V4a_slice_offset"],
        "technique": "bounded contract checking (Kani/CBMC) of the real element-wise operators per concrete shape pair, symbolic values",
        "level_text": "Bounded, not a proof: for every shape pair of the table (all alignment classes of sliced_op's broadcast walk; "
                      "thorough: all ordered pairs of shapes of rank <= 3 over sizes {1,2}) CBMC decides the C04 postcondition for all "
                      "values of the domain, or that the call panics for incompatible shapes. The unbounded part of the broadcast walk "
                      "(slice_offset for every rank and size) is a Verus obligation.",
        "level_note": "shapes concrete per instance; values symbolic integers in [-4,4] (one full-bit-pattern instance per operator in "
                      "the thorough tier); Rc::drop_slow stubbed; A1 for the Verus unit",
        "kani_groups": ["h_elementwise.rs"],
        "instances": c04_instances,
        "explanation": "Bounded contract check (Kani/CBMC on the real crate): for each concrete shape pair the harness states C04 "
                       "verbatim (dims = pairwise maximum, every element = scalar op at the right-aligned broadcast index, bitwise; "
                       "incompatible pairs must panic) and CBMC proves it for all values of the stated domain.",
    },
    "C05": {
        "level": "other",
        "technique": "Verus proof of the extracted matmul_slice kernel (all sizes, all transpositions) + bounded Kani contract "
                     "instances of Array::matmul",
        "level_text": "Kernel: unbounded deductive proof (Verus/Z3) on the verbatim function text. Shape derivation, batch iteration, "
                      "additive term, rank-1 forms, refusals: bounded Kani instances per concrete shape class, symbolic values. The "
                      "composition of the two is argued in DESIGN.md, not machine-checked.",
        "level_note": "A1 (floats as exact ring) for the kernel proof; A2 exact value domain and concrete shapes for the instances; "
                      "Rc::drop_slow stubbed",
        "verus": ["V1_matmul_slice"],
        "kani_groups": ["h_matmul.rs"],
        "instances": c05_instances,
        "explanation": "Unbounded: Verus proves the real text of matmul_slice against the C05 index maps for every size and all four "
                       "transposition combinations (every output cell = old + sum_k op(A)[r][k]*op(B)[k][j], no out-of-bounds index, "
                       "no usize overflow), under A1. Bounded: Kani instances check Array::matmul (shape derivation, batch iteration, "
                       "additive-term broadcast, rank-1 forms, refusal of mismatching inner dimensions) per concrete shape class. "
                       "obligations/discharged count only the Verus obligations; bounded_* count the Kani instances.",
    },
}


# ------------------------------------------------------------------------------------------ K-graph
G = {"ADD": 0, "MUL": 1, "SUB": 2, "NEG": 3, "SCALE": 4, "UMUL": 5, "UNTRACK": 6, "CLONE": 7, "RETRACK": 8}
MODES = {0: "seed", 1: "default", 2: "twice", 3: "clear+ones", 4: "mid-then-root"}


def graph_inst(tag, nodes, nl=2, tracked=None, root=None, mode=0, mid=0, dims=(1,), prop="C01", conc=0):
    tracked = tracked if tracked is not None else [True] * nl
    total = nl + len(nodes)
    root = total - 1 if root is None else root
    name = "g_%s__t%s__r%d__m%d%s%s" % (tag, "".join("1" if t else "0" for t in tracked), root, mode,
                                        "" if tuple(dims) == (1,) else "__d" + dn(dims), "" if conc == 0 else "__conc%d" % conc)
    ns = ", ".join("(%d, %d, %d)" % (G[o], i, j) for (o, i, j) in nodes)
    src = "graph_instance!(%s, %d, [%s], %d, [%s], [%s], %d, %d, %d, %d);" % (
        name, max(12, prod(dims) + total + 6), lit(dims), nl, ", ".join("true" if t else "false" for t in tracked), ns, root, mode, mid, conc)
    return Instance(name, src, function="Array::backward / propagate_consumers",
                    contract="backward contract on one graph class: C01 gradients = forward-mode derivative, C03 dims, C08 frame, "
                             "C09 flags/untracked, C10 Clean + additivity, C11 one invocation with complete adjoint",
                    bounds="graph %s over %d leaves (tracked=%s), root node %d, pass mode %s, array dims %s; %s"
                           % (nodes, nl, tracked, root, MODES[mode], list(dims),
                              "values and seed symbolic in [-4,4]" if conc == 0 else
                              "CONCRETE special values (zeros included) and %s seed" % ("all-zero" if conc == 1 else "masked")),
                    descr="graph " + tag, timeout=900)


GRAPHS = {
    "chain": [("MUL", 0, 1), ("ADD", 2, 0), ("NEG", 3, 3)],
    "diamond": [("MUL", 0, 1), ("MUL", 2, 0), ("ADD", 2, 3)],
    "selfprod3": [("MUL", 0, 0), ("MUL", 2, 2), ("MUL", 3, 3)],
    "shared": [("ADD", 0, 1), ("MUL", 0, 1), ("SUB", 2, 3)],
    "untracked_mid": [("MUL", 0, 1), ("UNTRACK", 2, 2), ("MUL", 3, 0), ("ADD", 4, 2)],
    "user_diamond": [("UMUL", 0, 1), ("UMUL", 2, 2), ("ADD", 3, 2)],
    "user_chain": [("UMUL", 0, 1), ("UMUL", 2, 0), ("UMUL", 3, 2)],
    "clone": [("CLONE", 0, 0), ("MUL", 0, 2), ("ADD", 3, 1)],
    "side_consumer": [("MUL", 0, 1), ("ADD", 2, 0), ("MUL", 2, 2)],
    "scale_sub": [("SCALE", 0, 0), ("SUB", 2, 1), ("MUL", 3, 3)],
    # tiny graphs: stay decidable even when a change makes control flow depend on the (symbolic) values
    "one_mul": [("MUL", 0, 1)],
    # an operation result whose handle was untracked and re-tracked (is_tracked without keep_gradient), used twice
    "user_retrack": [("UMUL", 0, 1), ("RETRACK", 2, 2), ("UMUL", 3, 3), ("ADD", 4, 3)],
    "mul_add": [("MUL", 0, 1), ("ADD", 2, 0)],
}


def _rand_graphs(seed, count, n_nodes, ops=("ADD", "MUL", "SUB", "UMUL", "NEG", "SCALE")):
    import random
    rng = random.Random(seed * 7919 + n_nodes)
    out = []
    for c in range(count):
        nodes = []
        for k in range(n_nodes):
            avail = 2 + k
            nodes.append((rng.choice(ops), rng.randrange(avail), rng.randrange(avail)))
        out.append(("rnd%d_%d_%d" % (n_nodes, seed, c), nodes))
    return out


def c01_instances(tier):
    gi = graph_inst
    I = [gi("one_mul", GRAPHS["one_mul"], dims=(2,)), gi("diamond", GRAPHS["diamond"], dims=(2,), conc=2), gi("diamond", GRAPHS["diamond"]),
         gi("selfprod3", GRAPHS["selfprod3"], mode=1),
         gi("shared", GRAPHS["shared"], tracked=[True, False]), gi("user_chain", GRAPHS["user_chain"]),
         multiuse_inst([2, 2], [2], 4), mm_grad_inst([2, 1], False, [1, 2], False, [2], ta=False, tb=False, tc=True)]
    if tier == "thorough":
        I += [multiuse_inst([2, 3], [3], 4), multiuse_inst([2, 3], [3], 3), multiuse_inst([2, 2], [2, 1], 4), multiuse_inst([2], [1], 4, passes=2)]
        seed = int(os.environ.get("VERIF_SEED", "0") or 0)
        for tag, nodes in GRAPHS.items():
            I.append(gi(tag, nodes))
            I.append(gi(tag, nodes, mode=1, tracked=[False, True]))
        I += [gi("diamond", GRAPHS["diamond"], dims=(2,)), gi("selfprod3", GRAPHS["selfprod3"], dims=(2, 2)),
              gi("side_consumer", GRAPHS["side_consumer"], root=3)]
        for tag, nodes in _rand_graphs(seed, 10, 2) + _rand_graphs(seed, 8, 3) + _rand_graphs(seed, 4, 4):
            I.append(gi(tag, nodes))
        seen = set()
        I = [i for i in I if not (i.name in seen or seen.add(i.name))]
    return I


def c10_instances(tier):
    gi = graph_inst
    I = [gi("diamond", GRAPHS["diamond"], mode=2), gi("diamond", GRAPHS["diamond"], mode=4, mid=2),
         gi("shared", GRAPHS["shared"], mode=3), gi("mul_add", GRAPHS["mul_add"], mode=2), gi("diamond", GRAPHS["diamond"], mode=2, dims=(2,), conc=1)]
    if tier == "thorough":
        for tag in ("chain", "selfprod3", "user_diamond", "untracked_mid", "clone"):
            I.append(gi(tag, GRAPHS[tag], mode=2))
            I.append(gi(tag, GRAPHS[tag], mode=3))
        I += [gi("selfprod3", GRAPHS["selfprod3"], mode=4, mid=3), gi("user_chain", GRAPHS["user_chain"], mode=4, mid=2),
              gi("side_consumer", GRAPHS["side_consumer"], mode=4, mid=3, root=4),
              gi("diamond", GRAPHS["diamond"], mode=2, tracked=[True, False]),
              gi("diamond", GRAPHS["diamond"], mode=2, dims=(2,))]
    return I


def c11_instances(tier):
    gi = graph_inst
    I = [gi("user_diamond", GRAPHS["user_diamond"]), gi("user_chain", GRAPHS["user_chain"], mode=2),
         gi("side_consumer", GRAPHS["side_consumer"], root=3), gi("user_retrack", GRAPHS["user_retrack"])]
    if tier == "thorough":
        U = {"user_selfprod3": [("UMUL", 0, 0), ("UMUL", 2, 2), ("UMUL", 3, 3)],
             "user_fan": [("UMUL", 0, 1), ("UMUL", 2, 0), ("UMUL", 2, 1), ("ADD", 3, 4)],
             "user_mixed": [("UMUL", 0, 1), ("MUL", 2, 0), ("UMUL", 3, 2)]}
        for tag, nodes in U.items():
            I.append(gi(tag, nodes))
            I.append(gi(tag, nodes, mode=4, mid=2 + 1))
        I += [gi("user_diamond", GRAPHS["user_diamond"], tracked=[True, False]), gi("user_chain", GRAPHS["user_chain"], mode=4, mid=3),
              gi("user_diamond", GRAPHS["user_diamond"], dims=(2,))]
        seed = int(os.environ.get("VERIF_SEED", "0") or 0)
        for tag, nodes in _rand_graphs(seed + 1, 6, 3, ops=("UMUL", "UMUL", "ADD", "MUL")):
            I.append(gi(tag, nodes))
    return I


def c17_instances(tier):
    gi = graph_inst
    I = [gi("diamond", GRAPHS["diamond"], mode=3), gi("selfprod3", GRAPHS["selfprod3"], mode=0, dims=(2,)),
         gi("scale_sub", GRAPHS["scale_sub"], mode=3), gi("one_mul", GRAPHS["one_mul"], mode=0, dims=(2,)), gi("mul_add", GRAPHS["mul_add"], mode=0),
         gi("diamond", GRAPHS["diamond"], dims=(2,), conc=1), gi("shared", GRAPHS["shared"], dims=(2,), conc=2),
         gi("mul_add", GRAPHS["mul_add"], mode=3, dims=(1, 1))]
    if tier == "thorough":
        for tag in ("chain", "shared", "user_diamond", "untracked_mid", "clone", "user_chain"):
            I.append(gi(tag, GRAPHS[tag], mode=3))
            I.append(gi(tag, GRAPHS[tag], mode=0, dims=(2,)))
    return I


_GRAPH_TEXT = ("Bounded (Kani/CBMC on the real crate, cbmc --max-field-sensitivity-array-size so that the Rc/Cell graph walk is "
               "executed precisely): for each concrete graph class the harness builds the graph with the real operations (and user "
               "operations through Array::op), runs the real backward pass(es) with symbolic values and seed, and asserts the "
               "contract of backward: gradients equal an independent forward-mode derivative of the same node list, Clean(G) before "
               "and after, flags and values unchanged, user derivative closures invoked exactly once with the complete adjoint. "
               "No unbounded contract for the walk is dischargeable with Verus/Kani as installed (Rc<Cell>, dyn closures); the "
               "composition over all programs is not machine-checked.")
_GRAPH_NOTE = ("graph classes concrete (<= 6 nodes, arrays of 1-4 elements), values/seeds symbolic integers in [-4,4] (A2), "
               "Rc::drop_slow stubbed (A3); graph families listed in the evidence; thorough adds VERIF_SEED-sampled random node lists")

PROPS.update({
    "C01": {"level": "model_checking", "kani_groups": ["h_graph.rs", "h_elementwise.rs", "h_matmul.rs"], "instances": c01_instances,
            "technique": "bounded contract checking (Kani/CBMC) of the real backward pass on concrete graph classes against a forward-mode oracle",
            "level_text": _GRAPH_TEXT, "level_note": _GRAPH_NOTE, "explanation": _GRAPH_TEXT,
            "not_decided": ["the lifting from the checked graph classes to all programs (induction over the pass) is not machine-checked"]},
    "C10": {"level": "model_checking", "kani_groups": ["h_graph.rs"], "instances": c10_instances,
            "technique": "bounded contract checking (Kani/CBMC): repeated / interleaved backward passes on concrete graph classes, Clean(G) invariant",
            "level_text": _GRAPH_TEXT, "level_note": _GRAPH_NOTE, "explanation": _GRAPH_TEXT},
    "C11": {"level": "model_checking", "kani_groups": ["h_graph.rs"], "instances": c11_instances,
            "technique": "bounded contract checking (Kani/CBMC): user-operation graphs with invocation counters and recorded adjoints",
            "level_text": _GRAPH_TEXT, "level_note": _GRAPH_NOTE, "explanation": _GRAPH_TEXT},
    "C17": {"level": "model_checking", "kani_groups": ["h_graph.rs"], "instances": c17_instances,
            "technique": "bounded contract checking (Kani/CBMC): gradient = symbolic seed x seed-independent derivative (linearity), "
                         "default seed vs explicit ones bitwise",
            "level_text": _GRAPH_TEXT, "level_note": _GRAPH_NOTE, "explanation": _GRAPH_TEXT},
})
for _k in ("C01", "C10", "C11", "C17"):
    NOT_APPLICABLE.pop(_k, None)


# ------------------------------------------------------------------------------------------ C02 / C07 / C06 / C03
U = {"neg": 0, "scale": 1, "powf": 2, "ln": 3, "exp": 4, "recip": 5, "relu": 6, "sigmoid": 7, "exp_big": 8}


def fl(x):
    return repr(float(x))


def unary_inst(op, p, dims, mode):
    name = "%s_%s%s__%s" % ("c07" if mode == 0 else "c02", op, ("_p" + str(p).replace("-", "m").replace(".", "d")) if op in ("scale", "powf") else "", dn(dims))
    src = "unary_instance!(%s, %d, %d, %s, [%s], %d);" % (name, prod(dims) + 10, U[op], fl(p), lit(dims), mode)
    return Instance(name, src, function="Array::%s" % op,
                    contract=("C07: dims kept, out[i] = f(x[i]) bitwise" if mode == 0 else
                              "C02: after op(x).backward(seed): grad(x)[i] = seed[i] * f'(x[i]), dims of x"),
                    bounds="dims %s concrete, parameter %s, values/seed symbolic (exact domain); transcendentals = deterministic models (A4)" % (list(dims), p),
                    descr="%s %s" % (op, "forward" if mode == 0 else "derivative"))


def sum_inst(dims, k, mode):
    name = "%s_sum%d__%s" % ("c07" if mode == 0 else "c02", k, dn(dims))
    src = "sum_instance!(%s, %d, [%s], %d, %d);" % (name, prod(dims) + 10, lit(dims), k, mode)
    return Instance(name, src, function="Array::sum / sum_all",
                    contract="C07: sum(k) collapses the last k dims into one unit dim holding their sums; C02: every summed element receives its block's seed",
                    bounds="dims %s, k=%d concrete; values symbolic integers" % (list(dims), k), descr="sum")


def reshape_inst(dims, target, mode):
    name = "%s_reshape__%s__%s" % ("c07" if mode == 0 else "c02", dn(dims), dn(target))
    src = "reshape_instance!(%s, %d, [%s], [%s], %d);" % (name, prod(dims) + 10, lit(dims), lit(target), mode)
    return Instance(name, src, expect_panic=prod(dims) != prod(target), function="Array::reshape",
                    contract="C07: row-major order kept under new dims, storage shared, other element counts refused; C02: gradient = seed reshaped",
                    bounds="dims %s -> %s concrete" % (list(dims), list(target)), descr="reshape")


def softmax_inst(rows, mode):
    name = "%s_softmax__%dx2" % ("c07" if mode == 0 else "c02", rows)
    src = "softmax_instance!(%s, %d, %d, %d);" % (name, rows * 2 + 12, rows, mode)
    return Instance(name, src, function="Array::softmax",
                    contract="C07: exp(x_i)/sum_j exp(x_j) over the last dim, rows non-negative and summing to one; C02: g_i = y_i (s_i - sum_j s_j y_j)",
                    bounds="[%d,2] rows; forward: first element -4, second symbolic; derivative: two equal symbolic entries, symbolic seed; "
                           "exp model 2^x (homomorphic, kani/math_models_pow2.c)" % rows,
                    descr="softmax", timeout=900, math="math_models_pow2")


def ew_grad_inst(op, a, b, ta=True, tb=True):
    name = "c02_%s_grad__%s__%s__t%d%d" % (op, dn(a), dn(b), ta, tb)
    n = max(prod(a), prod(b), prod(bcast(a, b)))
    src = "ew_grad_instance!(%s, %d, %d, [%s], [%s], %s, %s);" % (name, n + 10, EW_OPS[op], lit(a), lit(b), str(ta).lower(), str(tb).lower())
    return Instance(name, src, function="<&Array as %s<&Array>> + Array::backward + flatten_to" % op,
                    contract="C02/C03: grad(a)[p] = sum_{i projecting onto p} seed[i]*df/dx, dims of a; same for b; untracked operand gets none",
                    bounds="shapes %s / %s concrete; values, seed symbolic (divisors in +-{1,2,4})" % (a, b), descr="binary derivative", timeout=900)


def mm_grad_inst(a, at, b, bt, c=(), ta=True, tb=True, tc=True):
    name = "c02_mm_grad__%s%s__%s%s__c%s__t%d%d%d" % (dn(a), "t" if at else "", dn(b), "t" if bt else "", dn(c), ta, tb, tc)
    n = max(prod(a), prod(b), prod(mm_expect(a, at, b, bt)))
    src = "mm_grad_instance!(%s, %d, [%s], %s, [%s], %s, [%s], %s, %s, %s);" % (
        name, n + 10, lit(a), str(at).lower(), lit(b), str(bt).lower(), lit(c), str(ta).lower(), str(tb).lower(), str(tc).lower())
    return Instance(name, src, function="Array::matmul + Array::backward",
                    contract="C02: gradients of A, B and the additive term = transpose-Jacobian x seed (brute-force accumulation); C09 tracked iff any operand",
                    bounds="shapes %s%s x %s%s c=%s concrete; values, seed symbolic" % (a, "^T" if at else "", b, "^T" if bt else "", list(c)),
                    descr="matmul derivative", timeout=1200)


def conv_inst(batch, d, r, c, cnt, fr, fc, sr, sc, mode):
    name = "%s_conv__b%s_d%d_%dx%d__f%d_%dx%d__s%d_%d" % ("c06" if mode == 0 else "c02", dn(batch), d, r, c, cnt, fr, fc, sr, sc)
    n = prod(batch) * max(d * r * c, cnt * ((r - fr) // sr + 1) * ((c - fc) // sc + 1)) + cnt * d * fr * fc
    src = "conv_instance!(%s, %d, [%s], %d, %d, %d, %d, %d, %d, %d, %d, %d);" % (name, n + 12, lit(batch), d, r, c, cnt, fr, fc, sr, sc, mode)
    return Instance(name, src, function="Array::conv (unroll_blocks, reshape, matmul, expand_conv)" + (" + backward" if mode else ""),
                    contract="C06: out[b,f,y,x] = sum_{k,m,n} image[b,k,y*sr+m,x*sc+n]*filter[f,k,m,n]; C02: image/filter gradients = J^T seed",
                    bounds="batch %s, depth %d, image %dx%d, %d filters %dx%d, stride (%d,%d) concrete; values symbolic" % (list(batch), d, r, c, cnt, fr, fc, sr, sc),
                    descr="conv", timeout=1500, mem_gb=16)


def c07_instances(tier):
    I = []
    quick_unary = [("neg", 0, [2, 2]), ("scale", 3, [3]), ("powf", 3, [2]), ("powf", 0.5, [2]), ("ln", 0, [2]), ("exp", 0, [1, 2]),
                   ("recip", 0, [2]), ("relu", 0, [2, 2]), ("sigmoid", 0, [2]), ("exp_big", 0, [2])]
    for op, p, d in quick_unary:
        I.append(unary_inst(op, p, d, 0))
    I += [sum_inst([2, 3], 1, 0), sum_inst([2, 2, 2], 2, 0), sum_inst([2, 3], 0, 0), sum_inst([2, 2], 2, 0), sum_inst([3, 1, 1], 2, 0),
          sum_inst([2, 1], 1, 0), sum_inst([18], 1, 0),
          reshape_inst([2, 3], [3, 2], 0), reshape_inst([2, 3], [4], 0), softmax_inst(1, 0)]
    if tier == "thorough":
        for op, p, d in [("neg", 0, [1, 2, 1, 2]), ("scale", -2, [2, 1, 2]), ("powf", 2, [2, 2]), ("powf", -1, [3]), ("powf", 0, [2]),
                         ("powf", 1, [2]), ("ln", 0, [2, 1]), ("exp", 0, [3]), ("recip", 0, [1, 3]), ("relu", 0, [3]), ("sigmoid", 0, [2, 2])]:
            I.append(unary_inst(op, p, d, 0))
        for dims in ([3], [2, 3], [2, 2, 2], [2, 1, 3], [1, 2, 2, 2], [2, 1, 1], [1, 1], [2, 3, 1, 1]):
            for k in range(0, len(dims) + 1):
                I.append(sum_inst(dims, k, 0))
        I += [sum_inst([2, 2], 3, 0), reshape_inst([2, 2, 2], [4, 2], 0), reshape_inst([4], [2, 1, 2], 0), reshape_inst([2, 2], [2, 3], 0),
              reshape_inst([1], [1, 1, 1], 0), softmax_inst(2, 0)]
        seen = set()
        I = [i for i in I if not (i.name in seen or seen.add(i.name))]
    return I


def c02_instances(tier):
    I = [unary_inst("powf", 3, [2], 1), unary_inst("recip", 0, [2], 1), unary_inst("sigmoid", 0, [2], 1), unary_inst("ln", 0, [2], 1),
         sum_inst([2, 2, 2], 2, 1), reshape_inst([2, 2], [4], 1),
         ew_grad_inst("mul", [2, 2], [2]), ew_grad_inst("div", [2], [2, 2]),
         mm_grad_inst([2, 2], False, [2, 1], False, [1]), mm_grad_inst([2, 1], True, [2, 2], True),
         conv_inst([], 1, 2, 3, 1, 1, 2, 1, 1, 1), conv_inst([2], 1, 1, 2, 1, 1, 1, 1, 1, 1)]
    if tier == "thorough":
        for op, p, d in [("neg", 0, [2]), ("scale", -2, [2]), ("powf", 2, [2]), ("powf", -1, [2]), ("powf", 0.5, [2]), ("powf", 0, [2]),
                         ("powf", 1, [2]), ("exp", 0, [2]), ("relu", 0, [3]), ("powf", 3, [2, 2]), ("ln", 0, [1, 2]), ("recip", 0, [2, 1])]:
            I.append(unary_inst(op, p, d, 1))
        for dims in ([3], [2, 3], [2, 2, 2], [2, 1, 2]):
            for k in range(0, len(dims) + 1):
                I.append(sum_inst(dims, k, 1))
        I += [sum_inst([2, 2, 2, 2], 2, 1), sum_inst([2, 2, 2, 2], 3, 1), reshape_inst([2, 3], [3, 2], 1), reshape_inst([4], [2, 1, 2], 1),
              softmax_inst(1, 1), softmax_inst(2, 1)]
        for op in ("add", "sub", "mul", "div", "axpy"):
            for a, b in [([2, 2], [2]), ([2], [2, 2]), ([2, 1], [1, 2]), ([2, 2, 2], [2, 2]), ([1, 2], [2, 1, 2])]:
                I.append(ew_grad_inst(op, a, b))
            I.append(ew_grad_inst(op, [2, 2], [2], ta=False))
            I.append(ew_grad_inst(op, [2, 2], [1], tb=False))
        for at in (False, True):
            for bt in (False, True):
                a = [1, 2] if at else [2, 1]
                b = [2, 1] if bt else [1, 2]
                I.append(mm_grad_inst(a, at, b, bt))
        I += [mm_grad_inst([2, 2], False, [2, 2], False, [2]), mm_grad_inst([2, 2], False, [2, 2], True, [2, 2]),
              mm_grad_inst([2, 1, 2], False, [2, 1], False, [1, 1]), mm_grad_inst([2], False, [2, 2], False),
              mm_grad_inst([2, 2], False, [2], True), mm_grad_inst([2], False, [2], False),
              mm_grad_inst([2, 2], False, [2, 1], False, [1], ta=False, tb=False, tc=True),
              mm_grad_inst([2, 1, 2], False, [1, 2, 1], False), mm_grad_inst([1, 1, 2], False, [2, 2, 1], False)]
        I += [conv_inst([], 1, 3, 3, 1, 2, 2, 1, 1, 1), conv_inst([2], 1, 2, 2, 1, 1, 1, 1, 1, 1), conv_inst([], 2, 2, 3, 1, 2, 2, 1, 1, 1),
              conv_inst([], 1, 3, 4, 2, 2, 2, 1, 2, 1), conv_inst([2], 1, 1, 3, 1, 1, 2, 1, 1, 1), conv_inst([], 1, 4, 3, 1, 2, 1, 2, 1, 1)]
        seen = set()
        I = [i for i in I if not (i.name in seen or seen.add(i.name))]
    return I


def c06_instances(tier):
    I = [conv_inst([], 1, 3, 3, 1, 2, 2, 1, 1, 0), conv_inst([2], 1, 2, 2, 2, 1, 1, 1, 1, 0), conv_inst([], 2, 2, 3, 1, 2, 2, 1, 1, 0),
         conv_inst([], 1, 3, 4, 1, 2, 2, 2, 1, 0), conv_inst([1], 1, 2, 3, 1, 1, 2, 1, 1, 0),
         conv_inst([], 1, 3, 3, 1, 2, 2, 1, 2, 0)]
    if tier == "thorough":
        I += [conv_inst([2], 1, 3, 3, 1, 2, 2, 1, 1, 0), conv_inst([], 1, 4, 4, 1, 2, 2, 2, 2, 0), conv_inst([], 1, 4, 3, 2, 3, 2, 1, 1, 0),
              conv_inst([], 1, 3, 4, 1, 2, 2, 1, 2, 0), conv_inst([2, 1], 1, 2, 2, 1, 2, 2, 1, 1, 0), conv_inst([], 2, 3, 3, 2, 2, 2, 1, 1, 0),
              conv_inst([], 1, 4, 3, 1, 2, 1, 3, 1, 0), conv_inst([], 1, 3, 5, 1, 1, 2, 1, 2, 0), conv_inst([3], 1, 2, 2, 1, 2, 1, 1, 1, 0),
              conv_inst([], 1, 5, 2, 1, 2, 2, 2, 1, 0)]
    return I


def flatten_inst(s, t):
    name = "c03_flatten__%s__%s" % (dn(s), dn(t))
    src = "flatten_instance!(%s, %d, [%s], [%s]);" % (name, prod(s) + 10, lit(s), lit(t))
    return Instance(name, src, function="Array::flatten_to (flatten_slice)",
                    contract="C03: dims = target; out[j] = sum_{i projecting onto j} in[i]", bounds="%s -> %s concrete; values symbolic" % (s, t),
                    descr="flatten_to")


def multiuse_inst(a, b, uses, passes=1):
    name = "c03_multiuse__%s__%s__u%d_p%d" % (dn(a), dn(b), uses, passes)
    src = "multiuse_instance!(%s, %d, [%s], [%s], %d, %d);" % (name, max(prod(a), prod(b), prod(bcast(a, b))) + 10, lit(a), lit(b), uses, passes)
    return Instance(name, src, function="Array::backward (first/later contribution) + flatten_to",
                    contract="C03: a broadcast operand used `uses` times gets a gradient of its own dims = sum over positions and uses",
                    bounds="a %s, b %s concrete, %d uses, %d passes; values/seed symbolic" % (a, b, uses, passes), descr="multi-use broadcast", timeout=1200)


def c03_instances(tier):
    I = [flatten_inst([2, 3], [3]), flatten_inst([2, 3], [1, 3]), flatten_inst([2, 2, 3], [2, 3]), flatten_inst([2, 3], [2, 1]), flatten_inst([2, 2, 2], [2, 1]),
         multiuse_inst([2, 3], [3], 2), multiuse_inst([2, 2], [2, 1], 3), multiuse_inst([2, 2], [2], 4), ew_grad_inst("mul", [2, 1, 2], [1, 2])]
    if tier == "thorough":
        I += [flatten_inst([2, 2, 3], [3]), flatten_inst([2, 2, 3], [2, 1, 3]), flatten_inst([2, 2, 3], [1, 2, 1]), flatten_inst([2, 2], [1]),
              flatten_inst([3], [1, 3]), flatten_inst([2, 2, 2, 2], [2, 1, 2]), flatten_inst([2, 3], [1, 1]), flatten_inst([2, 1, 2], [2]),
              multiuse_inst([2, 3], [3], 3), multiuse_inst([2, 3], [1, 3], 2), multiuse_inst([2, 2, 2], [2, 2], 2), multiuse_inst([2, 2], [1], 2),
              multiuse_inst([2, 2], [2], 2, passes=2), multiuse_inst([3], [2, 3], 2), multiuse_inst([2, 1], [1, 2], 2)]
        for a, b in [([2, 2], [2]), ([2], [2, 2]), ([2, 1], [1, 2]), ([2, 2, 2], [2, 2]), ([1, 2], [2, 1, 2]), ([2, 2], [1])]:
            I.append(ew_grad_inst("add", a, b))
    return I


_OP_NOTE = ("shapes/parameters concrete per instance, values and seeds symbolic integers in [-4,4] (divisors +-{1,2,4}); exp/ln/powf are "
            "the deterministic models of kani/math_models.c (A4); Rc::drop_slow stubbed (A3); A1 for the Verus units")
PROPS.update({
    "C02": {"level": "other", "verus": ["V3_roll_blocks_op", "V5_expand_conv", "V4b_flatten_slice", "V1_matmul_slice"],
            "kani_groups": ["h_elementwise.rs", "h_matmul.rs", "h_ops.rs", "h_conv.rs"], "instances": c02_instances,
            "technique": "Verus proofs of the gradient kernels (scatter-add of the unroll derivative, reduce-to-shape, matmul kernel) + bounded "
                         "Kani contract instances: op(x).backward(seed) against the transpose-Jacobian written out",
            "level_text": "Unbounded (Verus, all sizes): the accumulating roll kernel computes out[p] = old + sum of the inputs mapped to p and "
                          "its index map is the inverse of the im2col map; flatten_slice adds every value at its projected index; "
                          "matmul_slice (used by the matmul derivative). Bounded (Kani): for each operation and parameter class the real "
                          "operation is applied to tracked operands, the real backward pass is run with a symbolic non-uniform seed and every "
                          "operand gradient is compared with J^T seed computed by explicit loops.",
            "level_note": _OP_NOTE,
            "explanation": "Per-operation derivative contracts. obligations/discharged count the Verus obligations only; bounded_* the Kani instances.",
            "not_decided": ["that the derivative identities used as oracle (calculus table) are the mathematical derivatives is trusted (A4)"]},
    "C03": {"level": "other", "verus": ["V4b_flatten_slice"],
            "kani_groups": ["h_elementwise.rs"], "instances": c03_instances,
            "technique": "Verus proof of flatten_slice (reduce-to-shape for every rank and size) + bounded Kani instances of flatten_to and of "
                         "multi-use broadcast operands through real backward passes",
            "level_text": "Unbounded: flatten_slice adds each adjoint value at its right-aligned projected index, for all ranks and sizes (A1). "
                          "Bounded: flatten_to dims/values per alignment class; gradients of operands broadcast in 1-3 operations of one graph, "
                          "1-2 passes, have the operand's dims and the summed values (first and later contributions).",
            "level_note": _OP_NOTE,
            "explanation": "flatten_slice contract proved for all shapes; call sites (flatten_to, backward's two arms) bounded."},
    "C06": {"level": "other", "verus": ["V2_unroll_blocks_op", "V5_expand_conv", "V1_matmul_slice", "V4a_slice_offset"],
            "kani_groups": ["h_conv.rs"], "instances": c06_instances,
            "technique": "Verus proofs of the im2col gather map, the matmul kernel and the batch slice offset + bounded Kani instances of conv "
                         "against the direct sliding-window sum",
            "level_text": "Unbounded: unroll_blocks' kernel writes out[((((r*C+c)*D+k)*FR+m)*FC+n)] = in[(k*R+m+sr*r)*Cols+n+sc*c] for every size, "
                          "stride and filter (including strides that do not divide and overlapping windows); matmul_slice; slice_offset. "
                          "Bounded: the whole conv pipeline (unroll, reshape, matmul, expand_conv) per concrete class incl. batch absent/1/2.",
            "level_note": _OP_NOTE,
            "explanation": "Kernels proved for all sizes, pipeline bounded."},
    "C07": {"level": "model_checking", "kani_groups": ["h_elementwise.rs", "h_ops.rs"], "instances": c07_instances,
            "technique": "bounded Kani contract instances of sum(k), sum_all, reshape, the point-wise maps and softmax per concrete shape / parameter",
            "level_text": "Bounded: every function is checked against the statement for concrete shapes (thorough: rank <= 4, every k) with symbolic "
                          "values; point-wise maps bitwise against the same scalar expression; sums on the exact domain.",
            "level_note": _OP_NOTE,
            "explanation": "Bounded contract instances per function and shape class.",
            "not_decided": ["softmax rows non-negative and summing to one is decided only on a domain where the model exponentials make all quotients "
                            "exact (rows of two); for real exp and float rounding the clause is not decidable with these tools"]},
})
for _k in ("C02", "C03", "C06", "C07"):
    NOT_APPLICABLE.pop(_k, None)


# ------------------------------------------------------------------------------------------ C16 / C09 / C12 / C13 / C15 / C14 / C18
def simple_inst(macro, name, args, function, contract, bounds, unwind=16, expect_panic=False, timeout=900, mem_gb=24):
    src = "%s!(%s, %d%s);" % (macro, name, unwind, (", " + args) if args else "")
    return Instance(name, src, expect_panic=expect_panic, function=function, contract=contract, bounds=bounds, descr=name, timeout=timeout, mem_gb=mem_gb)


def c16_instances(tier):
    I = []
    fi_c = "flatten_indices: result = row-major offset of the last |dims| indices"
    for rank, extra in ([(1, 0), (2, 0), (3, 0), (2, 1)] if tier == "quick" else [(1, 0), (2, 0), (3, 0), (4, 0), (2, 1), (3, 1), (1, 2)]):
        I.append(simple_inst("fi_instance", "c16_fi_r%d_e%d" % (rank, extra), "%d, %d" % (rank, extra), "flatten_indices", fi_c,
                             "rank %d (+%d ignored leading indices) concrete; every dim symbolic in 1..4, every index symbolic < dim" % (rank, extra)))
    ctor_c = ("From<(dims, values)> / From<Vec<Float>> / From<Vec<usize>>: dims and row-major values verbatim, fresh untracked leaf; panic iff a "
              "dim is 0 or the count mismatches; Index returns the row-major element; == iff dims and values equal")
    ctors = [([2, 3], 6), ([3], 3), ([2, 1, 2], 4), ([2, 0], 0), ([2, 2], 3), ([0], 0), ([2, 3], 7)]
    if tier == "thorough":
        ctors += [([1], 1), ([2, 2, 2], 8), ([1, 2, 1, 2], 4), ([3, 1], 3), ([1, 1, 1], 1), ([2, 0, 2], 0), ([2, 2], 5), ([4], 3), ([1, 3, 2], 6)]
    for d, ln in ctors:
        valid = all(x > 0 for x in d) and prod(d) == ln
        I.append(simple_inst("ctor_instance", "c16_ctor__%s__n%d" % (dn(d), ln), "[%s], %d" % (lit(d), ln), "Array::from (3 impls), Index, PartialEq",
                             ctor_c, "dims %s, %d values concrete; values symbolic over ALL bit patterns" % (d, ln), unwind=ln + 12, expect_panic=not valid))
    I.append(simple_inst("index_oob_instance", "c16_index_oob__2x2", "[2, 2]", "Index<usize>", "an out-of-range flat index is refused", "dims [2,2]",
                         expect_panic=True))
    nests = [(2, [2], False), (3, [1, 2], False), (2, [2], True)] + ([(1, [3], False), (2, [2, 2], False), (3, [2], True), (2, [1], False)] if tier == "thorough" else [])
    for outer, inner, bad in nests:
        I.append(simple_inst("nested_instance", "c16_nested__%dx%s%s" % (outer, dn(inner), "_bad" if bad else ""),
                             "%d, [%s], %s" % (outer, lit(inner), str(bad).lower()), "From<Vec<Array>>",
                             "dims [count, inner...], row-major concatenation; differing inner shapes panic",
                             "%d arrays of dims %s" % (outer, inner), unwind=outer * prod(inner) + 12, expect_panic=bad))
    I.append(simple_inst("arr_macro_instance", "c16_arr_macro", "", "arr!", "arr! at nesting depth 1..3 gives the nested dims and row-major layout",
                         "8 symbolic values", unwind=20))
    return I


TRACK_OPS = {"add": 0, "mul": 1, "div": 2, "sub": 3, "axpy": 4, "matmul_c": 5, "matmul": 6, "neg": 10, "scale": 11, "powf": 12, "ln": 13,
             "exp": 14, "recip": 15, "relu": 16, "sigmoid": 17, "sum": 18, "reshape": 19, "softmax": 20, "conv": 21, "user": 22}


def c09_instances(tier):
    I = [simple_inst("flags_instance", "c09_flags", "", "tracked/untracked/start_tracking/stop_tracking/Clone",
                     "flag functions set exactly the documented flag(s) of this handle and return the previous value; a clone's flag is independent",
                     "symbolic initial flag", unwind=12),
         simple_inst("untracked_root_instance", "c09_untracked_root", "", "Array::backward", "a pass on an untracked result stores the seed on it only",
                     "[2] arrays, symbolic values", unwind=12)]
    ops = ["add", "matmul_c", "powf", "reshape", "sum", "user"] if tier == "quick" else list(TRACK_OPS)
    for op in ops:
        I.append(simple_inst("track_rule_instance", "c09_rule_%s" % op, str(TRACK_OPS[op]), "operation " + op,
                             "result tracked iff an operand (incl. matmul's additive term) is tracked; untracked result keeps no reference",
                             "operand flags SYMBOLIC (all 8 assignments), shapes concrete", unwind=16, timeout=1200))
    gi = graph_inst
    I += [gi("diamond", GRAPHS["diamond"], tracked=[True, False]), gi("untracked_mid", GRAPHS["untracked_mid"]),
          gi("mul_add", GRAPHS["mul_add"], tracked=[True, False], mode=2), gi("user_retrack", GRAPHS["user_retrack"])]
    if tier == "thorough":
        I += [gi("diamond", GRAPHS["diamond"], tracked=[False, True]), gi("diamond", GRAPHS["diamond"], tracked=[False, False]),
              gi("shared", GRAPHS["shared"], tracked=[False, True], mode=2), gi("untracked_mid", GRAPHS["untracked_mid"], mode=2),
              gi("user_diamond", GRAPHS["user_diamond"], tracked=[False, True]), gi("untracked_mid", GRAPHS["untracked_mid"], tracked=[True, False])]
    return I


def c12_instances(tier):
    I = [simple_inst("flags_instance", "c12_clone_contract", "", "Clone for Array",
                     "clone shares values/children/counter/pending/gradient by pointer and copies the flag values", "symbolic flag", unwind=12)]
    I.append(simple_inst("kept_gradient_instance", "c12_kept_gradient", "", "Array::backward gradient deposit",
                         "a second pass accumulates whatever gradient / leaf handles of the first pass are still alive; fetched gradients stay intact",
                         "program c=a*b; e=c+a, two passes, [2] arrays", unwind=12, timeout=1500))
    for v in ((0, 1, 2) if tier == "quick" else (0, 1, 2, 3)):
        I.append(simple_inst("handles_instance", "c12_handles_v%d" % v, str(v), "program with clones / drops / re-binding",
                             "values and gradients bitwise identical to the plain program; pass started from a clone of the result",
                             "program c=a*b; d=c+a; e=d*c on [2] arrays; variant %d; values/seed symbolic" % v, unwind=12, timeout=1500))
    I.append(simple_inst("nested_instance", "c16_nested__2x2", "2, [2], false", "From<Vec<Array>> from clones of live arrays",
                         "stacking clones of live arrays gives the same array as stacking the arrays themselves", "2 arrays of dims [2]", unwind=16))
    gi = graph_inst
    I.append(gi("clone", GRAPHS["clone"]))
    if tier == "thorough":
        I += [gi("clone", GRAPHS["clone"], mode=2), gi("clone2", [("CLONE", 0, 0), ("CLONE", 2, 2), ("MUL", 2, 3), ("ADD", 4, 0)]),
              gi("clone_mid", [("MUL", 0, 1), ("CLONE", 2, 2), ("MUL", 3, 2), ("ADD", 4, 3)])]
    return I


def c18_instances(tier):
    I = []
    for v in ((4, 1, 5) if tier == "quick" else (0, 1, 2, 3, 4, 5)):
        I.append(simple_inst("release_instance", "c18_release_v%d" % v, str(v), "drop glue of Array graphs (REAL Rc::drop, no stub)",
                             "after all results are dropped each leaf is the sole owner of its buffer, no alias / pending value remains; "
                             "gradients are independent arrays; Vec::from(leaf) succeeds",
                             "program c=a*b; d=c+a; e=... (variant 4: e=relu(a*b)); passes per variant %d; [2] arrays" % v, unwind=12, timeout=2400, mem_gb=24))
    # the "no pending value / count remains" half on tiny graph classes (drop stub; Clean(G) after the pass for every value incl. zero adjoints)
    I += [graph_inst("mul_add", GRAPHS["mul_add"], mode=0), graph_inst("diamond", GRAPHS["diamond"], dims=(2,), conc=1),
          graph_inst("diamond", GRAPHS["diamond"], mode=2, dims=(2,), conc=2)]
    return I


def c13_instances(tier):
    I = []
    sets = [([2], [1, 2], [], 1, 0.5), ([1], [2], [2, 1], 1, 2.0), ([2], [], [], 2, 0.0)]
    if tier == "thorough":
        sets += [([2, 2], [2], [1], 1, 0.5), ([2], [2], [], 2, 2.0), ([1], [2], [1, 2], 2, 0.5), ([3], [], [], 2, 1.0), ([1, 1], [2, 1], [2], 1, 1.0)]
    # concrete gradients with an all-zero gradient on one parameter (special value class)
    for zmask in ((1, 2) if tier == "quick" else (1, 2, 4, 3)):
        I.append(simple_inst("update_z_instance", "c13_update_zero__2__1x2__2__z%d" % zmask, "[2], [1, 2], [2], 1, 7, 0.5, %d" % zmask,
                             "GradientDescent::update with an all-zero gradient",
                             "a parameter whose gradient is all zeros is still stepped (by zero) and cleared; the others meet their own gradients",
                             "three parameters, all holding CONCRETE gradients, parameter set %s all-zero; values symbolic" % bin(zmask), unwind=14))
    for a, b, c, rounds, lr in sets:
        k = len([x for x in (a, b, c) if x])
        masks = range(2 ** k) if (tier == "thorough" or k <= 2) else (0b101, 0b010, 0b110, 0b111)
        for mask in masks:
            I.append(simple_inst("update_instance", "c13_update__%s__%s__%s__r%d__m%d" % (dn(a), dn(b), dn(c), rounds, mask),
                                 "[%s], [%s], [%s], %d, %d, %s" % (lit(a), lit(b), lit(c), rounds, mask, fl(lr)), "GradientDescent::update",
                                 "every parameter holding a gradient becomes old - lr*own gradient (same dims, tracked, fresh leaf, gradient cleared); "
                                 "others untouched; older handles intact",
                                 "parameter shapes %s, gradient-holding subset mask %s (complement in later rounds), lr %s concrete; values and gradients symbolic; %d round(s)"
                                 % ([x for x in (a, b, c) if x], bin(mask), lr, rounds), unwind=14, timeout=1500))
    return I


def c15_instances(tier):
    I = []
    dense = [(0, 2, 1, 0), (2, 2, 2, 1), (1, 2, 1, 2)] + ([(2, 1, 2, 0), (0, 1, 2, 1), (2, 2, 1, 2), (1, 3, 1, 0)] if tier == "thorough" else [])
    for b, i, o, act in dense:
        I.append(simple_inst("dense_instance", "c15_dense__b%d_%dto%d_a%d" % (b, i, o, act), "%d, %d, %d, %d" % (b, i, o, act), "Dense::forward",
                             "activation(x W^T + b) for a single vector (b0) or a batch of row vectors", "sizes concrete, activation %s; parameters and input symbolic"
                             % ["none", "relu", "sigmoid"][act], unwind=14, timeout=1500))
    convs = [(0, 1, 2, 2, 1, 1, 2, 1, 1, 0), (2, 1, 2, 2, 2, 1, 1, 1, 1, 1)] + ([(0, 1, 3, 3, 1, 2, 2, 1, 1, 1), (1, 2, 2, 2, 1, 2, 2, 1, 1, 0),
                                                                                   (2, 1, 2, 3, 1, 1, 2, 1, 1, 0)] if tier == "thorough" else [])
    for c in convs:
        I.append(simple_inst("conv_layer_instance", "c15_convlayer__b%d_d%d_%dx%d__f%d_%dx%d__s%d_%d_a%d" % c, ", ".join(map(str, c)), "Conv::forward",
                             "activation(conv(x, filters, stride) + bias per filter)", "sizes concrete; parameters and input symbolic", unwind=20, timeout=1800, mem_gb=16))
    for d in ([[2, 2], [2, 1, 2]] + ([[1, 2], [2, 1], [4], [1, 2, 2]] if tier == "thorough" else [])):
        I.append(simple_inst("cost_instance", "c15_cost__%s" % dn(d), "[%s]" % lit(d), "cost::mse / cost::cross_entropy",
                             "mse = (target-output)^2/count; cross-entropy = -target*ln(output)/leading dim", "dims %s" % d, unwind=12))
    I.append(simple_inst("cost_bt_instance", "c15_cost__2x2__t2", "[2, 2], [2]", "cost::mse / cost::cross_entropy with a broadcast target",
                         "mse divides by the element count of the OUTPUT; cross-entropy by its leading dimension, also when the target is broadcast",
                         "output [2,2], target [2]", unwind=12))
    I.append(simple_inst("train_instance", "c15_model__b1_1to1", "1, 1, 1, 1, 0.5, 1", "Model::forward / Model::backward",
                         "forward = composition of the layers; backward returns the sum of the cost array and differentiates down to the parameters",
                         "dense 1->1, batch 1, mse", unwind=12, timeout=1500, mem_gb=30))
    if tier == "thorough":
        I.append(simple_inst("train_instance", "c15_model__b2_2to1", "2, 2, 1, 1, 0.5, 1", "Model::forward / Model::backward",
                             "forward = composition; backward returns the sum of the cost array", "dense 2->1, batch 2, mse", unwind=12, timeout=2400, mem_gb=30))
    return I


def c14_instances(tier):
    I = [simple_inst("train_instance", "c14_fb2c__b1_1to1", "1, 1, 1, 2, 0.5, 3", "Model::forward / Model::backward on ONE model, two iterations",
                     "each iteration returns the loss (sum of the cost array) of the current parameters on the CURRENT batch; nothing of the "
                     "previous iteration's output is used",
                     "dense 1->1 (no activation), mse, batch 1, 2 iterations (first batch concrete, second symbolic), no update in between",
                     unwind=12, timeout=1500, mem_gb=30),
         simple_inst("update_instance", "c14_step__2__2x1__none__r2__m3", "[2], [2, 1], [], 2, 3, 0.5", "GradientDescent::update, two consecutive steps",
                     "the optimizer step of an iteration leaves clean fresh leaves: a second step without new gradients changes nothing",
                     "two parameters, both with gradients in round 1, none in round 2", unwind=14, timeout=900),
         simple_inst("update_z_instance", "c14_step_zero__2__2x1__z1", "[2], [2, 1], [], 1, 3, 0.5, 1", "GradientDescent::update with an all-zero gradient",
                     "an iteration whose first parameter has an exactly all-zero gradient still steps the later parameters with their own gradients",
                     "two parameters, concrete gradients (first all zeros), values symbolic", unwind=14, timeout=900)]
    if tier == "thorough":
        I += [simple_inst("train2_instance", "c14_train2__b1_1to1_i2", "1, 1, 1, 2, 0.5", "forward / backward / GradientDescent::update loop",
                          "each iteration returns the current loss and moves every parameter by -lr x exact gradient of that loss; parameters are "
                          "clean fresh leaves afterwards (nothing leaks into the next iteration)",
                          "dense 1->1, mse, batch 1, lr 1/2, 2 iterations; the optimizer is applied to layer.parameters() directly "
                          "(Model::update's flat_map plumbing is NOT covered)", unwind=10, timeout=3000, mem_gb=40),
              simple_inst("train_instance", "c14_fb2__b1_1to1", "1, 1, 1, 2, 0.5, 1", "Model::forward / Model::backward on ONE model, two iterations",
                          "as the quick instance, both batches symbolic", "dense 1->1, batch 1", unwind=12, timeout=3000, mem_gb=30),
              simple_inst("train_instance", "c14_fb2c__b2_2to1", "2, 2, 1, 2, 0.5, 3", "Model::forward / Model::backward on ONE model, two iterations",
                          "as above", "dense 2->1, batch 2, first batch concrete", unwind=12, timeout=2400, mem_gb=30)]
    return I


def c08_instances(tier):
    I = [ew_inst("mul", [2, 1, 2], [1, 2]), mm_inst([2, 2], False, [2, 2], True, [2]), graph_inst("diamond", GRAPHS["diamond"], mode=2)]
    I += [i for i in c13_instances("quick")][:3]
    if tier == "thorough":
        I += [ew_inst("div", [2, 2], [2]), unary_inst("powf", 2, [2, 2], 0), sum_inst([2, 2], 1, 0), reshape_inst([2, 2], [4], 0),
              conv_inst([], 1, 2, 3, 1, 1, 2, 1, 1, 0), graph_inst("user_diamond", GRAPHS["user_diamond"], mode=4, mid=2),
              graph_inst("shared", GRAPHS["shared"], mode=3)] + c13_instances("quick")[3:]
    return I


def c19_instances(tier):
    I = [ew_inst("add", [2, 2, 3], [2, 3]), ew_inst("div", [2, 2], [2]), mm_inst([2, 2], True, [2, 2], False, [2]),
         unary_inst("powf", 3, [2], 0), unary_inst("sigmoid", 0, [2], 1), unary_inst("exp_big", 0, [2], 0), unary_inst("exp_big", 0, [2], 1),
         sum_inst([2, 2, 2], 2, 0), sum_inst([18], 1, 0), sum_inst([2, 17], 1, 1),
         simple_inst("ctor_instance", "c16_ctor__2x3__n6", "[2, 3], 6", "Array::from", "C16 under f32", "dims [2,3]", unwind=18),
         simple_inst("ctor_instance", "c16_ctor__2x2__n3", "[2, 2], 3", "Array::from", "C16 under f32: refusal does not depend on the float width", "dims [2,2], 3 values", unwind=18, expect_panic=True),
         graph_inst("diamond", GRAPHS["diamond"]), simple_inst("track_rule_instance", "c09_rule_matmul_c", "5", "matmul", "C09 under f32", "symbolic flags", timeout=1200)]
    if tier == "thorough":
        I += [ew_inst("mul", [2], [1], full=True), mm_inst([2, 3], False, [3, 2], False), conv_inst([], 1, 3, 3, 1, 2, 2, 1, 1, 0),
              conv_inst([2], 1, 2, 2, 1, 1, 1, 1, 1, 1), ew_grad_inst("div", [2], [2, 2]), flatten_inst([2, 2, 3], [2, 3]),
              multiuse_inst([2, 3], [3], 2), graph_inst("selfprod3", GRAPHS["selfprod3"], mode=2), softmax_inst(1, 0),
              simple_inst("update_instance", "c13_update__2__1x2__none__r1__m3", "[2], [1, 2], [], 1, 3, 0.5", "GradientDescent::update", "C13 under f32", "", unwind=14)]
    return I


_GEN_NOTE = ("shapes / flags tables concrete per instance unless stated, values symbolic; Rc::drop_slow stubbed (A3) except in C18 instances; "
             "bounded instances are never counted as proofs")
PROPS.update({
    "C16": {"level": "model_checking", "kani_groups": ["h_construct.rs"], "instances": c16_instances,
            "technique": "bounded Kani contract instances: flatten_indices with symbolic dims/indices (rank <= 4, dims <= 4); constructors, Index, "
                         "PartialEq, arr! with values over all bit patterns",
            "level_text": "Bounded: flatten_indices = row-major offset for every dimension vector in 1..4 per rank and every in-range index (symbolic); "
                          "the four constructors store dims/values verbatim, refuse zero dims / count mismatch / ragged nesting; indexing returns the "
                          "row-major element; equality is exactly dims+values equality whatever flags or gradients. An all-sizes proof of "
                          "flatten_indices is out of reach: Verus does not accept its filter/fold iterator chain and CBMC does not finish on 64-bit "
                          "multiplier equivalence.",
            "level_note": _GEN_NOTE, "explanation": "Bounded contract instances for construction, layout, indexing and equality."},
    "C09": {"level": "model_checking", "kani_groups": ["h_graph.rs", "h_tracking.rs"], "instances": c09_instances,
            "technique": "bounded Kani contract instances: flag functions and Clone (complete: loop-free, symbolic flags); tracked-iff rule per "
                         "operation with symbolic operand flags; pass-level clauses on graph classes with mixed tracking",
            "level_text": "Flag functions / clone: loop-free harness over symbolic flags (complete for those functions). Per operation: all 8 flag "
                          "assignments symbolically, result tracked iff any operand; untracked results keep no graph and no reference (strong counts). "
                          "Pass level (flags restored, no gradient on untracked operands, nothing through untracked intermediates, gradients untracked): "
                          "the K-graph contract on graph classes with untracked leaves / intermediates. A tracked seed is outside the precondition.",
            "level_note": _GEN_NOTE, "explanation": "Tracking contracts per handle, per operation and per pass (bounded)."},
    "C12": {"level": "other", "audits": ["audit_handles"], "kani_groups": ["h_graph.rs", "h_tracking.rs", "h_handles.rs", "h_construct.rs"], "instances": c12_instances,
            "technique": "Clone contract (loop-free Kani harness) + source audit that nothing observes handle identity + bounded program variants "
                         "with clones / drops / re-binding",
            "level_text": "Clone: every field shared by pointer or copied by value (complete, loop-free). Audit (re-run from /repo's text): the only "
                          "identity-sensitive calls are the two Rc::try_unwrap sites, no Drop impl, no count/ptr inspection; hence any function of an "
                          "array is invariant under replacing a handle by its clone (argued, rustc-checked types). Bounded: three rewritings of one "
                          "program (cloned operands, early drops, re-binding, pass from a clone of the result) give bitwise identical values and "
                          "gradients; clone nodes inside graph classes.",
            "level_note": _GEN_NOTE, "explanation": "Clone contract + identity audit + bounded program variants. obligations/discharged count the audit items."},
    "C08": {"level": "other", "audits": ["audit_immutability"],
            "kani_groups": ["h_elementwise.rs", "h_matmul.rs", "h_graph.rs", "h_model.rs", "h_ops.rs", "h_conv.rs"], "instances": c08_instances,
            "technique": "frame condition discharged by rustc's type/borrow checker for all programs, with its premises re-audited from the source "
                         "on every run; plus bounded operand-snapshot postconditions in Kani instances",
            "level_text": "`dimensions: Vec<usize>` and `values: Rc<Vec<Float>>` carry no interior mutability, so no code holding `&Array` or a shared "
                          "Rc can write them; rustc proves this for every program. The audit re-checks the premises (field types, no unsafe outside "
                          "blas.rs, no Rc::get_mut/make_mut/raw pointers/transmute, no mutable accessor, optimizer assigns a new array). Bounded: "
                          "operands, older handles and graph nodes are snapshotted and compared bitwise after operations, passes and updates.",
            "level_note": _GEN_NOTE + "; the audit is lexical (regex over comment-free token text)",
            "explanation": "Type-system frame argument + premise audit + bounded snapshots. obligations/discharged count the audit items."},
    "C13": {"level": "model_checking", "kani_groups": ["h_model.rs", "h_ops.rs", "h_elementwise.rs"], "instances": c13_instances,
            "technique": "bounded Kani contract instances of GradientDescent::update over parameter lists, every gradient-holding subset enumerated",
            "level_text": "Bounded: 1-3 parameters with different shapes, every subset holding a gradient (enumerated; complement in the second "
                          "round), symbolic values and gradients: updated parameters = old - lr*own gradient with same dims, tracked, fresh leaf, "
                          "gradient cleared; others pointer-identical; older handles intact; misaligned drains change another parameter and fail.",
            "level_note": _GEN_NOTE + "; learning rate concrete per instance (1, 2, 1/2)", "explanation": "Bounded contract of the optimizer step."},
    "C15": {"level": "model_checking", "kani_groups": ["h_model.rs", "h_ops.rs", "h_elementwise.rs"], "instances": c15_instances,
            "technique": "bounded Kani contract instances of Dense::forward, Conv::forward, mse, cross_entropy, Model::forward/backward against the "
                         "documented formulas written as explicit loops",
            "level_text": "Bounded: layer sizes, batch shape and activation concrete per instance; parameters (through a symbolic Initializer) and "
                          "inputs symbolic. Dense = act(x W^T + b) for a vector and a batch; Conv = act(conv + bias per filter) incl. batch; costs "
                          "per formula; model forward = composition and backward returns the sum of the cost array.",
            "level_note": _GEN_NOTE + "; sigmoid/ln/powf via the deterministic models (A4); softmax activation covered by C07/C02 only",
            "explanation": "Bounded contract instances for layers, costs and model."},
    "C18": {"level": "model_checking", "audits": ["audit_handles"], "kani_groups": ["h_graph.rs", "h_handles.rs"], "instances": c18_instances,
            "technique": "bounded Kani instances with the REAL Rc drop glue: reference counts of every leaf cell after all results are dropped",
            "level_text": "Bounded: programs with 1-3 passes (incl. none, repeated, interior) on [2] arrays; after the results go out of scope every "
                          "Rc of each leaf (values, children, counter, pending, gradient) has strong count 1, no pending value remains, stored "
                          "gradients are independent arrays, and Vec::from(leaf) succeeds. Structural half: no Drop impl, graph edges only in "
                          "`children` (audit). The training-loop clause (model moved on to its next iteration) is covered only through C14's instances.",
            "level_note": "no drop stub in these instances; graph size <= 5 nodes", "explanation": "Bounded release contract with real drop semantics."},
    "C19": {"level": "other", "floats": ["f32"], "kani_features": [["f32"]],
            "verus": ["V1_matmul_slice", "V2_unroll_blocks_op", "V3_roll_blocks_op", "V4a_slice_offset", "V4b_flatten_slice", "V5_expand_conv"],
            "kani_groups": ["h_elementwise.rs", "h_matmul.rs", "h_ops.rs", "h_conv.rs", "h_construct.rs", "h_graph.rs", "h_tracking.rs", "h_model.rs"],
            "instances": c19_instances,
            "technique": "re-verification under the f32 feature: all Verus units with Float = f32, a cross-section of the Kani instances built with "
                         "--features f32",
            "level_text": "Decides 'every guarantee holds unchanged; shapes, tracking and accepted inputs do not depend on the width' for the units "
                          "re-run: the Verus contracts do not mention the width and re-verify; the Kani instances use domains exact in 24 bits. The "
                          "clause 'agrees with the double-precision reference to within single-precision rounding' is NOT decided (needs floating-point "
                          "error analysis, which neither tool offers).",
            "level_note": _GEN_NOTE, "explanation": "f32 re-verification of the kernels (unbounded) and a cross-section of instances (bounded).",
            "not_decided": ["agreement with the double-precision reference to within single-precision rounding"]},
})
PROPS["C14"] = {
    "level": "model_checking", "kani_groups": ["h_model.rs", "h_ops.rs", "h_elementwise.rs"], "instances": c14_instances,
    "technique": "bounded Kani instances of the training iteration: forward/backward twice on one Model (quick); full iterations with the "
                 "optimizer applied to the layer's parameters directly (thorough); Model::update's plumbing not covered",
    "level_text": "PARTIAL and bounded. Decided per instance: (quick) on one Model object two consecutive forward/backward iterations each return "
                  "the loss of the current parameters on the current batch; (thorough) two full iterations forward -> backward -> "
                  "GradientDescent::update move every parameter by -lr x the exact gradient of the current loss (closed form for a linear layer + "
                  "mse) and leave clean fresh leaves, whatever the first iteration did. NOT decided: Model::update -> Model::parameters "
                  "(flat_map over Vec<&mut dyn Layer>): CBMC exhausts 30 GB / 10 min on it even for one layer, Verus cannot model it; its three "
                  "lines are covered by no obligation. The remaining legs of the induction are C13, C15, C01/C02, C10.",
    "level_note": _GEN_NOTE + "; one dense layer without activation, mse, batch 1-2, learning rate 1/2",
    "explanation": "Bounded, partial check of the training iteration; see level_text for the uncovered plumbing.",
    "not_decided": ["Model::update -> Model::parameters (flat_map over dyn Layer) is covered by no obligation",
                    "no contract over an unbounded sequence of iterations is expressible; 2 iterations are checked"],
}
for _k in ("C16", "C09", "C12", "C08", "C13", "C15", "C18", "C19", "C14"):
    NOT_APPLICABLE.pop(_k, None)
