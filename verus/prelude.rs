// Prelude shared by every generated Verus unit (hand-written, fixed; see DESIGN.md 3.1 / 4.1).
// `@FLOAT@` is replaced by f64 (default build) or f32 (feature "f32", property C19).
use vstd::prelude::*;
use vstd::std_specs::ops::*;
use std::rc::Rc;
verus! {
pub type Float = @FLOAT@;

// A1: floating point treated as an exact commutative ring. `rv` is uninterpreted; the axioms below
// are the only `external_body` items of the framework on the Verus side.
pub uninterp spec fn rv(x: Float) -> int;

#[verifier::external_body]
pub broadcast proof fn ax_add_req(a: Float, b: Float)
    ensures #[trigger] a.add_req(b),
{}
#[verifier::external_body]
pub broadcast proof fn ax_add_val(a: Float, b: Float)
    ensures rv(#[trigger] a.add_spec(b)) == rv(a) + rv(b),
{}
#[verifier::external_body]
pub broadcast proof fn ax_mul_req(a: Float, b: Float)
    ensures #[trigger] a.mul_req(b),
{}
#[verifier::external_body]
pub broadcast proof fn ax_mul_val(a: Float, b: Float)
    ensures
        rv(#[trigger] a.mul_spec(b)) == rv(a) * rv(b),
        // the commuted form is a consequence in the ring; stating it keeps proofs independent of operand order
        rv(a.mul_spec(b)) == rv(b) * rv(a),
{}
#[verifier::external_body]
pub proof fn ax_consts()
    ensures
        <Float as AddSpec<Float>>::obeys_add_spec(),
        <Float as MulSpec<Float>>::obeys_mul_spec(),
        rv(0.0) == 0,
{}
pub broadcast group float_ring { ax_add_req, ax_add_val, ax_mul_req, ax_mul_val }

// ---- integer lemmas used by several units -------------------------------------------------
pub proof fn lemma_idx(i: int, n: int, j: int, m: int)
    requires 0 <= i < n, 0 <= j < m
    ensures 0 <= i * m + j < n * m, i * m + j == j + i * m, i * m >= 0, n * m == m * n,
{
    assert(i * m + j < n * m) by(nonlinear_arith) requires 0 <= i < n, 0 <= j < m;
    assert(i * m >= 0) by(nonlinear_arith) requires 0 <= i, 0 <= m;
    assert(n * m == m * n) by(nonlinear_arith);
}

pub proof fn lemma_divmod(r: int, j: int, c: int)
    requires 0 <= j < c, 0 <= r
    ensures (r * c + j) / c == r, (r * c + j) % c == j
{
    vstd::arithmetic::div_mod::lemma_fundamental_div_mod_converse(r * c + j, c, r, j);
}

// r <= x / s  ==>  s * r <= x      (stride positions stay inside the image; units V2, V3)
pub proof fn lemma_stride_bound(x: int, s: int, r: int)
    requires 0 <= x, 1 <= s, 0 <= r <= x / s,
    ensures 0 <= s * r <= x,
{
    vstd::arithmetic::div_mod::lemma_fundamental_div_mod(x, s);
    let q = x / s;
    assert(0 <= s * r <= s * q) by(nonlinear_arith) requires 0 <= r <= q, 1 <= s;
    assert(0 <= x % s);
}

// 0 <= x < a * b, b > 0  ==>  0 <= x / b < a  and  0 <= x % b < b
pub proof fn lemma_div_lt(x: int, a: int, b: int)
    requires 0 <= x < a * b, 0 < b,
    ensures 0 <= x / b < a, 0 <= x % b < b,
{
    vstd::arithmetic::div_mod::lemma_fundamental_div_mod(x, b);
    let q = x / b;
    assert(q < a) by(nonlinear_arith) requires b * q <= x, x < a * b, 0 < b;
    assert(q >= 0) by(nonlinear_arith) requires x == b * q + x % b, 0 <= x, 0 <= x % b < b, 0 < b;
}

// ---- operand-order / association kit: proofs must not depend on how a product is written ------
// every way of writing the product of three factors equals a * (b * c); pairs commute
pub proof fn lemma_mul3_forms(a: int, b: int, c: int)
    ensures
        (a * b) * c == a * (b * c), (b * a) * c == a * (b * c), c * (a * b) == a * (b * c), c * (b * a) == a * (b * c),
        (a * c) * b == a * (b * c), (c * a) * b == a * (b * c), b * (a * c) == a * (b * c), b * (c * a) == a * (b * c),
        (b * c) * a == a * (b * c), (c * b) * a == a * (b * c), a * (c * b) == a * (b * c),
        a * b == b * a, a * c == c * a, b * c == c * b,
{
    assert((a * b) * c == a * (b * c) && (b * a) * c == a * (b * c) && c * (a * b) == a * (b * c) && c * (b * a) == a * (b * c)) by(nonlinear_arith);
    assert((a * c) * b == a * (b * c) && (c * a) * b == a * (b * c) && b * (a * c) == a * (b * c) && b * (c * a) == a * (b * c)) by(nonlinear_arith);
    assert((b * c) * a == a * (b * c) && (c * b) * a == a * (b * c) && a * (c * b) == a * (b * c)) by(nonlinear_arith);
    assert(a * b == b * a && a * c == c * a && b * c == c * b) by(nonlinear_arith);
}

// partial products of non-negative factors are non-negative and bounded by the full product
// (whenever the omitted factor is >= 1): no intermediate overflow, whatever the association
pub proof fn lemma_mul3_bounds(a: int, b: int, c: int)
    requires 0 <= a, 0 <= b, 0 <= c,
    ensures
        0 <= a * b, 0 <= a * c, 0 <= b * c, 0 <= a * (b * c),
        c >= 1 ==> a * b <= a * (b * c),
        b >= 1 ==> a * c <= a * (b * c),
        a >= 1 ==> b * c <= a * (b * c),
{
    assert(0 <= a * b && 0 <= a * c && 0 <= b * c) by(nonlinear_arith) requires 0 <= a, 0 <= b, 0 <= c;
    assert(0 <= a * (b * c)) by(nonlinear_arith) requires 0 <= a, 0 <= b * c;
    assert(c >= 1 ==> a * b <= a * (b * c)) by(nonlinear_arith) requires 0 <= a, 0 <= b, 0 <= c;
    assert(b >= 1 ==> a * c <= a * (b * c)) by(nonlinear_arith) requires 0 <= a, 0 <= b, 0 <= c;
    assert(a >= 1 ==> b * c <= a * (b * c)) by(nonlinear_arith) requires 0 <= a, 0 <= b, 0 <= c;
}
