// ---------------------------------------------------------------------------------------------
// C12: handle transparency (clones, drops, re-binding, pass started from a clone of the result).
// C18: dropping results releases everything they held (REAL Rc drop glue: no drop stub here).
// ---------------------------------------------------------------------------------------------

/// The same program written plainly and with clones / drops / re-binding at every point where a
/// handle is used; values and gradients must be bitwise identical.
pub(super) fn handles_check(variant: u8) {
    let xv = sym_vec(2, sym_val);
    let yv = sym_vec(2, sym_val);
    let sv = sym_vec(2, sym_val);
    // plain program:  c = a*b ; d = c + a ; e = d * c ; e.backward(seed)
    let (a1, b1) = (mk(&[2], xv.clone()).tracked(), mk(&[2], yv.clone()).tracked());
    let c1 = &a1 * &b1;
    let d1 = &c1 + &a1;
    let e1 = &d1 * &c1;
    e1.backward(Some(mk(&[2], sv.clone())));
    // variant program
    let (a2, b2) = (mk(&[2], xv.clone()).tracked(), mk(&[2], yv.clone()).tracked());
    let e2 = match variant {
        0 => {
            // every operand replaced by a clone of it
            let c = &a2.clone() * &b2.clone();
            let d = &c.clone() + &a2.clone();
            &d.clone() * &c.clone()
        }
        1 => {
            // handles dropped as soon as the program no longer names them
            let c = &a2 * &b2;
            let d = &c + &a2;
            let e = &d * &c;
            drop(c);
            drop(d);
            e
        }
        3 => {
            // plain construction; the difference is in the passes below
            let c = &a2 * &b2;
            let d = &c + &a2;
            &d * &c
        }
        _ => {
            // one variable re-bound to each new result
            let c = &a2 * &b2;
            let mut v = &c + &a2;
            v = &v * &c;
            drop(c);
            v
        }
    };
    // the pass is started from a clone of the result
    let start = e2.clone();
    if variant == 0 {
        drop(e2);
        start.backward(Some(mk(&[2], sv.clone())));
    } else {
        start.backward(Some(mk(&[2], sv.clone())));
    }
    if variant == 3 {
        // a second pass on both programs; in the variant a previously fetched gradient handle (and a clone
        // of the leaf) stays alive across it: what a program keeps must not change what a pass deposits
        let kept = grad_of(&a2).unwrap();
        let kept_b = b2.gradient().to_owned().unwrap();
        let leaf_clone = a2.clone();
        e1.backward(Some(mk(&[2], sv.clone())));
        start.backward(Some(mk(&[2], sv.clone())));
        assert!(kept.values.len() == 2 && kept_b.values.len() == 2 && leaf_clone.values.len() == 2, "handles still alive");
    }
    let mut i = 0;
    while i < 2 {
        assert!(start.values[i].to_bits() == e1.values[i].to_bits(), "C12 identical values");
        i += 1;
    }
    let (ga1, gb1, ga2, gb2) = (grad_of(&a1).unwrap(), grad_of(&b1).unwrap(), grad_of(&a2).unwrap(), grad_of(&b2).unwrap());
    i = 0;
    while i < 2 {
        assert!(ga1.values[i].to_bits() == ga2.values[i].to_bits() && gb1.values[i].to_bits() == gb2.values[i].to_bits(),
                "C12 identical gradients whatever is cloned, dropped or re-bound");
        i += 1;
    }
    // a gradient deposited through any clone is visible through every other clone
    let a2c = a2.clone();
    assert!(grad_of(&a2c).is_some() && grad_of(&a2c).unwrap().values[0].to_bits() == ga2.values[0].to_bits(), "C12 gradient visible through every clone");
}

/// C12: what a program keeps alive must not change what a pass deposits: a previously fetched gradient
/// handle, a clone of the leaf and the result of a `+` stay named across a second pass.
pub(super) fn kept_gradient_check() {
    let xv = sym_vec(2, sym_val);
    let yv = sym_vec(2, sym_val);
    let (a, b) = (mk(&[2], xv.clone()).tracked(), mk(&[2], yv.clone()).tracked());
    let c = &a * &b;
    let e = &c + &a;
    e.backward(None);
    let kept_a = a.gradient().to_owned().unwrap();
    let kept_b = grad_of(&b).unwrap();
    let kept_e = grad_of(&e).unwrap();
    let leaf_clone = a.clone();
    e.backward(None);
    let (ga, gb, ge) = (grad_of(&leaf_clone).unwrap(), grad_of(&b).unwrap(), grad_of(&e).unwrap());
    let mut i = 0;
    while i < 2 {
        assert!(ga.values[i] == 2.0 * (yv[i] + 1.0) && gb.values[i] == 2.0 * xv[i] && ge.values[i] == 2.0,
                "C12/C10 the second pass accumulates whatever handles of the first gradient are still alive");
        assert!(kept_a.values[i] == yv[i] + 1.0 && kept_b.values[i] == xv[i] && kept_e.values[i] == 1.0,
                "C08 a previously fetched gradient is not changed by a later pass");
        i += 1;
    }
}

/// C18: after every result derived from the leaves has been dropped, each leaf is the sole owner of
/// its buffer again and nothing (graph node, pending value, alias) of the computation remains.
pub(super) fn release_check(variant: u8) {
    let a = mk(&[2], sym_vec(2, sym_val)).tracked();
    let b = mk(&[2], sym_vec(2, sym_val)).tracked();
    if variant == 5 {
        // dot product of two vectors, default seed (a unit adjoint)
        let e = Array::matmul((&a, false), (&b, false), None);
        e.backward(None);
        assert!(Rc::strong_count(&a.values) >= 2, "the graph holds the leaf while results are alive");
    } else if variant == 4 {
        // a result whose derivative can hand an all-zero adjoint to the node below it (inactive ReLU units)
        let e = (&a * &b).relu();
        e.backward(None);
        assert!(Rc::strong_count(&a.values) >= 2, "the graph holds the leaf while results are alive");
    } else {
        let c = &a * &b;
        let d = &c + &a;
        let e = if variant >= 1 { d.reshape(vec![1, 2]) } else { &d * &c };
        if variant != 3 {
            e.backward(None);
        }
        if variant == 2 {
            // a second pass and a pass from an interior node
            d.backward(None);
            e.backward(None);
        }
        assert!(Rc::strong_count(&a.values) >= 2, "the graph holds the leaf while results are alive");
    }
    assert!(Rc::strong_count(&a.values) == 1 && Rc::strong_count(&b.values) == 1, "C18 the array is again the sole owner of its buffer");
    assert!(Rc::strong_count(&a.children) == 1 && Rc::strong_count(&a.consumer_count) == 1 && Rc::strong_count(&a.delta) == 1
            && Rc::strong_count(&a.gradient) == 1 && Rc::strong_count(&b.gradient) == 1, "C18 no hidden alias of the leaf remains");
    assert!(node_clean(&a) && node_clean(&b), "C18 no pending value remains");
    if variant != 3 {
        // stored gradients are independent arrays and never keep a graph alive
        let g = grad_of(&a).unwrap();
        assert!(g.children.is_empty() && g.backward_op.is_none() && !Rc::ptr_eq(&g.values, &a.values), "C18 stored gradients are independent arrays");
    }
    // conversion into a Vec succeeds only for a sole owner: it must succeed now
    let v: Vec<Float> = Vec::from(a);
    assert!(v.len() == 2, "C18 the leaf can be converted into its buffer (sole owner)");
}

macro_rules! kept_gradient_instance {
    ($name:ident, $unwind:expr) => { vk_harness!($name, $unwind, { kept_gradient_check(); }); };
}
macro_rules! handles_instance {
    ($name:ident, $unwind:expr, $variant:expr) => { vk_harness!($name, $unwind, { handles_check($variant); }); };
}
macro_rules! release_instance {
    ($name:ident, $unwind:expr, $variant:expr) => { vk_harness_realdrop!($name, $unwind, { release_check($variant); }); };
}
