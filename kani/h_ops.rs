// ---------------------------------------------------------------------------------------------
// C07 (forward definitions) and C02 (derivatives) of the unary maps, sum(k), sum_all, reshape and
// softmax, for one concrete shape / parameter class; values and seeds symbolic.
// Transcendentals are the deterministic models of kani/math_models.c (A4).
// ---------------------------------------------------------------------------------------------
pub(super) const U_NEG: u8 = 0;
pub(super) const U_SCALE: u8 = 1;
pub(super) const U_POWF: u8 = 2;
pub(super) const U_LN: u8 = 3;
pub(super) const U_EXP: u8 = 4;
pub(super) const U_RECIP: u8 = 5;
pub(super) const U_RELU: u8 = 6;
pub(super) const U_SIGMOID: u8 = 7;
pub(super) const U_EXP_BIG: u8 = 8; // exp on large arguments (40, 45, 80): beyond any single-precision shortcut threshold

pub(super) fn u_apply(op: u8, p: Float, x: &Array) -> Array {
    match op {
        U_NEG => -x,
        U_SCALE => x * p,
        U_POWF => x.powf(p),
        U_LN => x.ln(),
        U_EXP | U_EXP_BIG => x.exp(),
        U_RECIP => x.reciprocal(),
        U_RELU => x.relu(),
        _ => x.sigmoid(),
    }
}
/// the scalar function of the statement
pub(super) fn u_f(op: u8, p: Float, x: Float) -> Float {
    match op {
        U_NEG => -x,
        U_SCALE => x * p,
        U_POWF => x.powf(p),
        U_LN => x.ln(),
        U_EXP | U_EXP_BIG => x.exp(),
        U_RECIP => 1.0 / x,
        U_RELU => if x > 0.0 { x } else { 0.0 },
        _ => 1.0 / (1.0 + (-x).exp()),
    }
}
/// its derivative (calculus table, trusted: A4)
pub(super) fn u_df(op: u8, p: Float, x: Float) -> Float {
    match op {
        U_NEG => -1.0,
        U_SCALE => p,
        U_POWF => p * x.powf(p - 1.0),
        U_LN => 1.0 / x,
        U_EXP | U_EXP_BIG => x.exp(),
        U_RECIP => -1.0 / (x * x),
        U_RELU => if x > 0.0 { 1.0 } else { 0.0 },
        _ => {
            let s = 1.0 / (1.0 + (-x).exp());
            s * (1.0 - s)
        }
    }
}
pub(super) fn u_domain(op: u8, p: Float) -> fn() -> Float {
    match op {
        U_LN => sym_ppow2,
        U_EXP_BIG => sym_big,
        U_RECIP => sym_pow2,
        U_POWF => if p < 1.0 { sym_pow2 } else { sym_val },
        _ => sym_val,
    }
}
/// 40, 45, 80
pub(super) fn sym_big() -> Float {
    let v = sym_i64();
    vassume(v == 40 || v == 45 || v == 80);
    v as Float
}
/// +1, +2, +4
pub(super) fn sym_ppow2() -> Float {
    let v = sym_i64();
    vassume(v == 1 || v == 2 || v == 4);
    v as Float
}

/// mode 0: forward definition (C07); mode 1: derivative through a real backward pass (C02)
pub(super) fn unary_check(op: u8, p: Float, dims: &[usize], mode: u8) {
    let n = numel(dims);
    let xv = sym_vec(n, u_domain(op, p));
    if mode == 0 {
        let x = mk(dims, xv.clone());
        let sx = snap(&x);
        let r = u_apply(op, p, &x);
        assert!(dims_eq(&r.dimensions, dims), "C07 point-wise functions keep the dimensions");
        assert!(r.values.len() == n, "C07 element count");
        let mut i = 0;
        while i < n {
            assert!(feq_bits(r.values[i], u_f(op, p, xv[i])), "C07 the scalar function is applied to every element");
            i += 1;
        }
        assert!(unchanged(&x, &sx), "C08 operand unchanged");
        assert!(!r.is_tracked.get() && r.children.is_empty() && r.backward_op.is_none(), "C09 untracked operand -> untracked result");
    } else {
        let x = mk(dims, xv.clone()).tracked();
        let r = u_apply(op, p, &x);
        assert!(r.is_tracked.get(), "C09 tracked operand -> tracked result");
        let sv = sym_vec(n, sym_val);
        r.backward(Some(mk(dims, sv.clone())));
        let g = grad_of(&x);
        assert!(g.is_some(), "C02 the tracked operand receives a gradient");
        let g = g.unwrap();
        assert!(dims_eq(&g.dimensions, dims), "C03 gradient has the operand's dimensions");
        let mut i = 0;
        while i < n {
            assert!(g.values[i] == sv[i] * u_df(op, p, xv[i]), "C02 gradient = seed x derivative of the scalar function");
            i += 1;
        }
        assert!(node_clean(&x) && node_clean(&r), "C10 no residue");
        assert!(x.is_tracked.get(), "C09 flags restored");
    }
}

/// sum(k): last k dimensions collapsed into one unit dimension holding their sums; k = 0 identity
pub(super) fn sum_check(dims: &[usize], k: usize, mode: u8) {
    let n = numel(dims);
    let xv = if n > 12 { sym_vec_sparse(n, sym_val) } else { sym_vec(n, sym_val) };
    let lead_rank = if k >= dims.len() { 0 } else { dims.len() - k };
    let lead = numel(&dims[..lead_rank]);
    let block = n / lead;
    let mut edims: Vec<usize> = dims[..lead_rank].to_vec();
    if k > 0 {
        edims.push(1);
    } else {
        edims = dims.to_vec();
    }
    if mode == 0 {
        let x = mk(dims, xv.clone());
        let sx = snap(&x);
        let r = x.sum(k);
        assert!(dims_eq(&r.dimensions, &edims), "C07 sum(k) dimensions: leading dimensions then one unit dimension");
        if k == 0 {
            let mut i = 0;
            while i < n {
                assert!(r.values[i].to_bits() == xv[i].to_bits(), "C07 sum(0) is the identity");
                i += 1;
            }
        } else {
            assert!(r.values.len() == lead, "C07 sum(k) element count");
            let mut l = 0;
            while l < lead {
                let mut s: Float = 0.0;
                let mut j = 0;
                while j < block {
                    s = s + xv[l * block + j];
                    j += 1;
                }
                assert!(r.values[l] == s, "C07 sum(k) holds the sums of the collapsed dimensions");
                l += 1;
            }
        }
        let mut t: Float = 0.0;
        let mut i = 0;
        while i < n {
            t = t + xv[i];
            i += 1;
        }
        assert!(x.sum_all() == t, "C07 sum_all returns the total");
        assert!(unchanged(&x, &sx), "C08 operand unchanged");
        assert!(!r.is_tracked.get(), "C09 untracked operand -> untracked result");
    } else {
        let x = mk(dims, xv.clone()).tracked();
        let r = x.sum(k);
        let rn = numel(&edims);
        let sv = sym_vec(rn, sym_val);
        r.backward(Some(mk(&edims, sv.clone())));
        let g = grad_of(&x).unwrap();
        assert!(dims_eq(&g.dimensions, dims), "C03 gradient has the operand's dimensions");
        let mut i = 0;
        while i < n {
            let e = if k == 0 { sv[i] } else { sv[i / block] };
            assert!(g.values[i] == e, "C02 sum: every summed element receives the seed of its block");
            i += 1;
        }
        assert!(node_clean(&x), "C10 no residue");
    }
}

/// reshape: row-major order kept, storage shared, other element counts refused
pub(super) fn reshape_check(dims: &[usize], target: &[usize], mode: u8) {
    let n = numel(dims);
    let xv = sym_vec(n, sym_val);
    if numel(target) != n {
        let x = mk(dims, xv);
        let _r = x.reshape(target.to_vec());
        vk_must_not_return!();
        return;
    }
    if mode == 0 {
        let x = mk(dims, xv.clone());
        let r = x.reshape(target.to_vec());
        assert!(dims_eq(&r.dimensions, target), "C07 reshape: new dimensions");
        assert!(Rc::ptr_eq(&r.values, &x.values), "C07/C08 reshape shares the storage (row-major order kept)");
        let mut i = 0;
        while i < n {
            assert!(r.values[i].to_bits() == xv[i].to_bits(), "C07 reshape keeps the row-major element order");
            i += 1;
        }
        assert!(!r.is_tracked.get(), "C09 untracked operand -> untracked result");
    } else {
        let x = mk(dims, xv.clone()).tracked();
        let r = x.reshape(target.to_vec());
        let sv = sym_vec(n, sym_val);
        r.backward(Some(mk(target, sv.clone())));
        let g = grad_of(&x).unwrap();
        assert!(dims_eq(&g.dimensions, dims), "C03 gradient has the operand's dimensions");
        let mut i = 0;
        while i < n {
            assert!(g.values[i].to_bits() == sv[i].to_bits(), "C02 reshape: the gradient is the seed in row-major order");
            i += 1;
        }
    }
}

/// softmax over the last dimension (rows of two; linked with the exp(x) = 2^x model, a true homomorphism, so
/// that shifted / rescaled but algebraically equal formulations give identical bits)
pub(super) fn softmax_check(rows: usize, mode: u8) {
    let dims = [rows, 2];
    let mut xv: Vec<Float> = Vec::with_capacity(rows * 2);
    let mut r = 0;
    while r < rows {
        if mode == 0 {
            xv.push(-4.0);
            xv.push(sym_val());
        } else {
            // derivative: rows with two equal (symbolic) entries, so that y = 1/2 and every product is exact
            let c = sym_val();
            xv.push(c);
            xv.push(c);
        }
        r += 1;
    }
    if mode == 0 {
        let x = mk(&dims, xv.clone());
        let y = x.softmax();
        assert!(dims_eq(&y.dimensions, &dims), "C07 softmax keeps the dimensions");
        let mut r = 0;
        while r < rows {
            let e0 = xv[2 * r].exp();
            let e1 = xv[2 * r + 1].exp();
            let s = e0 + e1;
            assert!(y.values[2 * r] == e0 / s && y.values[2 * r + 1] == e1 / s, "C07 softmax = exponentials divided by their sum over the last dimension");
            let rs = y.values[2 * r] + y.values[2 * r + 1];
            assert!(y.values[2 * r] >= 0.0 && y.values[2 * r + 1] >= 0.0 && rs >= 1.0 - 1.0e-6 && rs <= 1.0 + 1.0e-6,
                    "C07 softmax rows are non-negative and sum to one (up to rounding of the two quotients)");
            r += 1;
        }
    } else {
        let x = mk(&dims, xv.clone()).tracked();
        let y = x.softmax();
        let sv = sym_vec(rows * 2, sym_val);
        y.backward(Some(mk(&dims, sv.clone())));
        let g = grad_of(&x).unwrap();
        assert!(dims_eq(&g.dimensions, &dims), "C03 gradient has the operand's dimensions");
        let mut r = 0;
        while r < rows {
            let e0 = xv[2 * r].exp();
            let e1 = xv[2 * r + 1].exp();
            let s = e0 + e1;
            let (y0, y1) = (e0 / s, e1 / s);
            let dot = sv[2 * r] * y0 + sv[2 * r + 1] * y1;
            assert!(g.values[2 * r] == y0 * (sv[2 * r] - dot), "C02 softmax: g_i = y_i (s_i - sum_j s_j y_j)");
            assert!(g.values[2 * r + 1] == y1 * (sv[2 * r + 1] - dot), "C02 softmax: g_i = y_i (s_i - sum_j s_j y_j)");
            r += 1;
        }
    }
}

macro_rules! unary_instance {
    ($name:ident, $unwind:expr, $op:expr, $p:expr, [$($d:expr),*], $mode:expr) => {
        vk_harness!($name, $unwind, { unary_check($op, $p, &[$($d),*], $mode); });
    };
}
macro_rules! sum_instance {
    ($name:ident, $unwind:expr, [$($d:expr),*], $k:expr, $mode:expr) => {
        vk_harness!($name, $unwind, { sum_check(&[$($d),*], $k, $mode); });
    };
}
macro_rules! reshape_instance {
    ($name:ident, $unwind:expr, [$($d:expr),*], [$($t:expr),*], $mode:expr) => {
        vk_harness!($name, $unwind, { reshape_check(&[$($d),*], &[$($t),*], $mode); });
    };
}
macro_rules! softmax_instance {
    ($name:ident, $unwind:expr, $rows:expr, $mode:expr) => {
        vk_harness!($name, $unwind, { softmax_check($rows, $mode); });
    };
}
