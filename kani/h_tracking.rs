// ---------------------------------------------------------------------------------------------
// C09: tracking flags and "a result is tracked iff an operand is tracked; an untracked result keeps
// no reference". Flags are SYMBOLIC booleans (they only select between concrete code paths).
// C12 (clone contract) lives here too.
// ---------------------------------------------------------------------------------------------

/// contract of tracked / untracked / start_tracking / stop_tracking and of Clone
pub(super) fn flags_check() {
    let t0 = sym_bool();
    let a0 = mk(&[2], sym_vec(2, sym_val));
    let a = if t0 { a0.tracked() } else { a0.untracked() };
    assert!(a.is_tracked.get() == t0, "C09 tracked()/untracked() set the tracking flag of this handle");
    // Clone: every field shared by pointer or copied by value (C12)
    let c = a.clone();
    assert!(dims_eq(&c.dimensions, &a.dimensions), "C12 clone: same dimensions");
    assert!(Rc::ptr_eq(&c.values, &a.values) && Rc::ptr_eq(&c.children, &a.children)
            && Rc::ptr_eq(&c.consumer_count, &a.consumer_count) && Rc::ptr_eq(&c.delta, &a.delta)
            && Rc::ptr_eq(&c.gradient, &a.gradient), "C12 clone shares values, graph, counters, pending and stored gradient");
    assert!(c.backward_op.is_none() == a.backward_op.is_none(), "C12 clone shares the derivative closure");
    assert!(c.is_tracked.get() == t0, "C12 clone copies the flag value");
    // setting the flag on a clone never changes the original
    let prev = if sym_bool() { c.start_tracking() } else { c.stop_tracking() };
    assert!(prev == t0, "C09 start/stop_tracking return the previous value");
    assert!(a.is_tracked.get() == t0, "C09 setting the flag on a clone never changes the original");
    let c2 = a.clone().tracked();
    assert!(c2.is_tracked.get() && a.is_tracked.get() == t0, "C09 tracked() on a clone leaves the original");
    let c3 = a.clone().untracked();
    assert!(!c3.is_tracked.get() && a.is_tracked.get() == t0, "C09 untracked() on a clone leaves the original");
    // start/stop on the handle itself
    let p1 = a.stop_tracking();
    assert!(p1 == t0 && !a.is_tracked.get(), "C09 stop_tracking clears the tracking flag and returns the previous value");
    let p2 = a.start_tracking();
    assert!(!p2 && a.is_tracked.get(), "C09 start_tracking sets is_tracked, returns previous");
    // a gradient deposited through a clone is visible through every other clone (C12)
    *c.gradient_mut() = Some(mk(&[2], vec![1.0, 2.0]));
    assert!(grad_of(&a).is_some() && grad_of(&c2).is_some(), "C12 gradient visible through every clone");
}

pub(super) const T_ADD: u8 = 0;
pub(super) const T_MUL: u8 = 1;
pub(super) const T_DIV: u8 = 2;
pub(super) const T_SUB: u8 = 3;
pub(super) const T_AXPY: u8 = 4;
pub(super) const T_MATMUL: u8 = 5; // with additive term
pub(super) const T_MATMUL_NOC: u8 = 6;
pub(super) const T_NEG: u8 = 10;
pub(super) const T_SCALE: u8 = 11;
pub(super) const T_POWF: u8 = 12;
pub(super) const T_LN: u8 = 13;
pub(super) const T_EXP: u8 = 14;
pub(super) const T_RECIP: u8 = 15;
pub(super) const T_RELU: u8 = 16;
pub(super) const T_SIGMOID: u8 = 17;
pub(super) const T_SUM: u8 = 18;
pub(super) const T_RESHAPE: u8 = 19;
pub(super) const T_SOFTMAX: u8 = 20;
pub(super) const T_CONV: u8 = 21;
pub(super) const T_USER: u8 = 22;

fn flagged(dims: &[usize], t: bool, f: fn() -> Float) -> Array {
    let a = mk(dims, sym_vec(numel(dims), f));
    if t { a.tracked() } else { a }
}

/// result.is_tracked == OR of the operands' flags; an untracked result keeps no reference
pub(super) fn track_rule_check(op: u8) {
    let (ta, tb, tc) = (sym_bool(), sym_bool(), sym_bool());
    let d = [2usize, 2];
    let a = flagged(if op == T_CONV { &[1, 2, 2] } else { &d }, ta, sym_pow2);
    let b = flagged(if op == T_CONV { &[1, 1, 1, 2] } else { &d }, tb, sym_pow2);
    let c = flagged(&[2], tc, sym_val);
    let unary = op >= T_NEG && op <= T_SOFTMAX;
    let r = match op {
        T_ADD => &a + &b,
        T_MUL => &a * &b,
        T_DIV => &a / &b,
        T_SUB => &a - &b,
        T_AXPY => Array::axpy(2.0, &a, &b),
        T_MATMUL => Array::matmul((&a, false), (&b, true), Some(&c)),
        T_MATMUL_NOC => Array::matmul((&a, true), (&b, false), None),
        T_NEG => -&a,
        T_SCALE => &a * 3.0,
        T_POWF => a.powf(3.0),
        T_LN => a.ln(),
        T_EXP => a.exp(),
        T_RECIP => a.reciprocal(),
        T_RELU => a.relu(),
        T_SIGMOID => a.sigmoid(),
        T_SUM => a.sum(1),
        T_RESHAPE => a.reshape(vec![4]),
        T_SOFTMAX => a.softmax(),
        T_CONV => a.conv(&b, (1, 1)),
        _ => user_mul_plain(&a, &b),
    };
    let expect = if unary { ta } else if op == T_MATMUL { ta || tb || tc } else { ta || tb };
    assert!(r.is_tracked.get() == expect, "C09 a result is tracked iff at least one operand (incl. matmul's additive term) is tracked");
    if !expect {
        assert!(r.children.is_empty() && r.backward_op.is_none(), "C09 a result of untracked operands keeps no graph");
        if op != T_RESHAPE {
            assert!(Rc::strong_count(&a.values) == 1 && Rc::strong_count(&b.values) == 1 && Rc::strong_count(&c.values) == 1
                    && Rc::strong_count(&a.gradient) == 1 && Rc::strong_count(&b.gradient) == 1,
                    "C09 a result of untracked operands keeps no reference to them");
        }
    } else {
        assert!(r.backward_op.is_some() && !r.children.is_empty(), "C09 a tracked result records its operands");
    }
    assert!(a.is_tracked.get() == ta && b.is_tracked.get() == tb && c.is_tracked.get() == tc, "C09 operations do not change operand flags");
}

fn user_mul_plain(a: &Array, b: &Array) -> Array {
    let fwd: ForwardOp = Rc::new(|x: &[&Array]| {
        let n = x[0].values().len();
        let mut v = Vec::with_capacity(n);
        let mut i = 0;
        while i < n { v.push(x[0].values()[i] * x[1].values()[i]); i += 1; }
        Array::from((x[0].dimensions().to_vec(), v))
    });
    let bwd: BackwardOp = Rc::new(|_c, _t, d| vec![Some(d.clone()), Some(d.clone())]);
    // the custom-operation entry point attaches the graph iff a derivative closure is supplied;
    // the caller decides from the operands' flags (as the built-in operations do)
    let tracked = a.is_tracked.get() || b.is_tracked.get();
    Array::op(&[a, b], fwd, if tracked { Some(bwd) } else { None })
}

/// a pass started on an untracked result stores a gradient only on that array
pub(super) fn untracked_root_check() {
    let a = mk(&[2], sym_vec(2, sym_val));
    let b = mk(&[2], sym_vec(2, sym_val));
    let r = &a * &b;
    let sv = sym_vec(2, sym_val);
    r.backward(Some(mk(&[2], sv.clone())));
    let g = grad_of(&r).unwrap();
    assert!(g.values[0].to_bits() == sv[0].to_bits() && g.values[1].to_bits() == sv[1].to_bits(), "C09 the array the pass is started on stores the seed");
    assert!(grad_of(&a).is_none() && grad_of(&b).is_none(), "C09 untracked operands receive no gradient");
    assert!(!a.is_tracked.get() && !b.is_tracked.get() && !r.is_tracked.get(), "C09 flags unchanged");
}

macro_rules! flags_instance {
    ($name:ident, $unwind:expr) => { vk_harness!($name, $unwind, { flags_check(); }); };
}
macro_rules! track_rule_instance {
    ($name:ident, $unwind:expr, $op:expr) => { vk_harness!($name, $unwind, { track_rule_check($op); }); };
}
macro_rules! untracked_root_instance {
    ($name:ident, $unwind:expr) => { vk_harness!($name, $unwind, { untracked_root_check(); }); };
}
