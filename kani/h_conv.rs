// ---------------------------------------------------------------------------------------------
// C06 (forward) and C02 (derivative) of Array::conv for one concrete (image, filters, stride) class.
//   image [batch..., depth, rows, cols], filters [count, depth, frows, fcols], strides (sr, sc)
//   ensures dims = [batch..., count, (rows-frows)/sr+1, (cols-fcols)/sc+1]
//           out[b, f, y, x] = sum_{k,m,n} image[b, k, y*sr+m, x*sc+n] * filter[f, k, m, n]
// ---------------------------------------------------------------------------------------------
pub(super) fn conv_check(batch: &[usize], depth: usize, rows: usize, cols: usize, count: usize, fr: usize, fc: usize, sr: usize, sc: usize, mode: u8) {
    let mut idims: Vec<usize> = batch.to_vec();
    idims.push(depth); idims.push(rows); idims.push(cols);
    let fdims = [count, depth, fr, fc];
    let img0 = mk(&idims, sym_vec(numel(&idims), sym_val));
    let fil0 = mk(&fdims, sym_vec(numel(&fdims), sym_val));
    let (img, fil) = if mode == 0 { (img0, fil0) } else { (img0.tracked(), fil0.tracked()) };
    let (si, sf) = (snap(&img), snap(&fil));
    let oy = (rows - fr) / sr + 1;
    let ox = (cols - fc) / sc + 1;
    let mut odims: Vec<usize> = batch.to_vec();
    odims.push(count); odims.push(oy); odims.push(ox);
    let r = img.conv(&fil, (sr, sc));
    assert!(dims_eq(&r.dimensions, &odims), "C06 result dimensions [batch..., count, out rows, out cols]");
    let nb = numel(batch);
    let on = nb * count * oy * ox;
    assert!(r.values.len() == on, "C06 element count");
    let sv = if mode == 0 { Vec::new() } else { sym_vec(on, sym_val) };
    if mode != 0 {
        r.backward(Some(mk(&odims, sv.clone())));
    }
    let mut gi: Vec<Float> = vec![0.0; numel(&idims)];
    let mut gf: Vec<Float> = vec![0.0; numel(&fdims)];
    let mut b = 0;
    while b < nb {
        let mut f = 0;
        while f < count {
            let mut y = 0;
            while y < oy {
                let mut x = 0;
                while x < ox {
                    let o = ((b * count + f) * oy + y) * ox + x;
                    let mut s: Float = 0.0;
                    let mut k = 0;
                    while k < depth {
                        let mut m = 0;
                        while m < fr {
                            let mut n = 0;
                            while n < fc {
                                let ii = ((b * depth + k) * rows + y * sr + m) * cols + x * sc + n;
                                let fi = ((f * depth + k) * fr + m) * fc + n;
                                if mode == 0 {
                                    s = s + img.values[ii] * fil.values[fi];
                                } else {
                                    gi[ii] = gi[ii] + sv[o] * fil.values[fi];
                                    gf[fi] = gf[fi] + sv[o] * img.values[ii];
                                }
                                n += 1;
                            }
                            m += 1;
                        }
                        k += 1;
                    }
                    if mode == 0 {
                        assert!(r.values[o] == s, "C06 element = direct sliding-window sum");
                    }
                    x += 1;
                }
                y += 1;
            }
            f += 1;
        }
        b += 1;
    }
    if mode == 0 {
        assert!(unchanged(&img, &si) && unchanged(&fil, &sf), "C08 operands unchanged");
        assert!(!r.is_tracked.get(), "C09 untracked operands -> untracked result");
    } else {
        let g = grad_of(&img).unwrap();
        assert!(dims_eq(&g.dimensions, &idims), "C03 gradient has the operand's dimensions");
        let mut p = 0;
        while p < numel(&idims) { assert!(g.values[p] == gi[p], "C02 conv: image gradient accumulates every window that covers the pixel"); p += 1; }
        let g = grad_of(&fil).unwrap();
        assert!(dims_eq(&g.dimensions, &fdims), "C03 gradient has the operand's dimensions");
        let mut p = 0;
        while p < numel(&fdims) { assert!(g.values[p] == gf[p], "C02 conv: filter gradient"); p += 1; }
    }
}

macro_rules! conv_instance {
    ($name:ident, $unwind:expr, [$($b:expr),*], $d:expr, $r:expr, $c:expr, $cnt:expr, $fr:expr, $fc:expr, $sr:expr, $sc:expr, $mode:expr) => {
        vk_harness!($name, $unwind, { conv_check(&[$($b),*], $d, $r, $c, $cnt, $fr, $fc, $sr, $sc, $mode); });
    };
}
