// ---------------------------------------------------------------------------------------------
// C16: construction, row-major layout, indexing, equality.
// ---------------------------------------------------------------------------------------------

/// flatten_indices contract, rank concrete, dimensions and indices symbolic (each dim in 1..=4):
///   requires idx[k] < dims[k]   ensures result = row-major offset (sum_k idx_k * prod_{m>k} dims_m)
pub(super) fn fi_check(rank: usize, extra: usize) {
    let mut dims: Vec<usize> = Vec::with_capacity(rank);
    let mut idx: Vec<usize> = Vec::with_capacity(rank + extra);
    let mut e = 0;
    while e < extra {
        // leading indices beyond the rank are ignored by the contract
        let v = sym_i64();
        vassume(v >= 0 && v <= 3);
        idx.push(v as usize);
        e += 1;
    }
    let mut k = 0;
    while k < rank {
        let d = sym_i64();
        vassume(d >= 1 && d <= 4);
        let i = sym_i64();
        vassume(i >= 0 && i < d);
        dims.push(d as usize);
        idx.push(i as usize);
        k += 1;
    }
    let r = flatten_indices(&idx, &dims);
    assert!(r == ravel(&idx[extra..], &dims), "C16 flatten_indices = row-major offset");
    assert!(r < numel(&dims), "C16 offset in range");
}

/// From<(Vec<usize>, Vec<Float>)>, From<Vec<Float>>, From<Vec<usize>>; `len` values are supplied
pub(super) fn ctor_check(dims: &[usize], len: usize) {
    let vals = sym_vec(len, sym_full);
    let valid = {
        let mut ok = true;
        let mut k = 0;
        while k < dims.len() {
            if dims[k] == 0 { ok = false; }
            k += 1;
        }
        ok && numel(dims) == len
    };
    if !valid {
        let _a = Array::from((dims.to_vec(), vals));
        vk_must_not_return!();
        return;
    }
    let a = Array::from((dims.to_vec(), vals.clone()));
    assert!(dims_eq(&a.dimensions, dims) && dims_eq(a.dimensions(), dims), "C16 exactly the given dimensions");
    assert!(a.values.len() == len && a.values().len() == len, "C16 element count");
    let mut i = 0;
    while i < len {
        assert!(a.values[i].to_bits() == vals[i].to_bits(), "C16 row-major values verbatim");
        // flat and multi-index access return the row-major element
        assert!(a[i].to_bits() == vals[i].to_bits(), "C16 flat indexing returns the row-major element");
        let mi = unravel(i, dims);
        assert!(a[mi[..dims.len()].to_vec()].to_bits() == vals[i].to_bits(), "C16 multi-indexing returns the row-major element");
        i += 1;
    }
    assert!(!a.is_tracked.get() && a.children.is_empty() && a.backward_op.is_none()
            && a.consumer_count.get() == 0 && node_clean(&a) && grad_of(&a).is_none(),
            "C16/C09 a fresh array is an untracked leaf with empty slots");
    // flat vector constructor
    let f = Array::from(vals.clone());
    assert!(f.dimensions.len() == 1 && f.dimensions[0] == len, "C16 flat vector: dimensions [len]");
    // zeros
    let z = Array::from(dims.to_vec());
    assert!(dims_eq(&z.dimensions, dims) && z.values.len() == len, "C16 zeros: dimensions");
    i = 0;
    while i < len {
        assert!(z.values[i].to_bits() == (0.0 as Float).to_bits() && f.values[i].to_bits() == vals[i].to_bits(), "C16 zeros / flat values");
        i += 1;
    }
    // equality: dims and values only, whatever the tracking state, graph or gradient
    let b = Array::from((dims.to_vec(), vals.clone())).tracked();
    *b.gradient_mut() = Some(Array::from(vals.clone()));
    let same_vals = {
        let mut ok = true;
        let mut q = 0;
        while q < len { if !(vals[q] == vals[q]) { ok = false; } q += 1; }
        ok // false iff a NaN is present (NaN != NaN makes arrays unequal, as for slices of floats)
    };
    assert!((a == b) == same_vals, "C16 equal exactly when dimensions and values are equal, whatever tracking / gradient");
    let other = sym_vec(len, sym_full);
    let c = Array::from((dims.to_vec(), other.clone()));
    let mut eq = true;
    i = 0;
    while i < len { if !(vals[i] == other[i]) { eq = false; } i += 1; }
    assert!((a == c) == eq, "C16 equality is value equality");
    if dims.len() >= 2 {
        let r = Array::from((vec![len], vals.clone()));
        assert!(!(a == r), "C16 arrays with different dimensions are not equal");
        // ... also when they share one value buffer (a reshaped view, or the Rc constructor)
        let v = a.reshape(vec![len]);
        let w = Array::from((vec![1, len], Rc::clone(&a.values)));
        assert!(!(a == v) && !(a == w) && !(v == w), "C16 views of one buffer with different dimensions are not equal");
    }
}

/// out-of-range flat index is refused
pub(super) fn index_oob_check(dims: &[usize]) {
    let a = mk(dims, sym_vec(numel(dims), sym_val));
    let _x = a[numel(dims)];
    vk_must_not_return!();
}

/// nested construction (arr! of arr! ...): `outer` copies of an inner array of dims `inner`
pub(super) fn nested_check(outer: usize, inner: &[usize], bad: bool) {
    let n = numel(inner);
    let mut parts: Vec<Array> = Vec::with_capacity(outer);
    let mut all: Vec<Float> = Vec::with_capacity(outer * n);
    let mut o = 0;
    while o < outer {
        let v = sym_vec(n, sym_full);
        let mut q = 0;
        while q < n { all.push(v[q]); q += 1; }
        if bad && o == outer - 1 {
            // last element has a different shape (same element count): must be refused
            let mut d2: Vec<usize> = vec![1];
            let mut q = 0;
            while q < inner.len() { d2.push(inner[q]); q += 1; }
            parts.push(Array::from((d2, v)));
        } else {
            parts.push(Array::from((inner.to_vec(), v)));
        }
        o += 1;
    }
    if bad {
        let _a = Array::from(parts);
        vk_must_not_return!();
        return;
    }
    // the same construction from CLONES of live arrays (their buffers are shared, so they are copied): C12
    let clones: Vec<Array> = parts.iter().map(|x| x.clone()).collect();
    let from_clones = Array::from(clones);
    let a = Array::from(parts);
    assert!(from_clones == a || all.iter().any(|v| v.is_nan()), "C12/C16 nested construction from clones of live arrays gives the same array");
    let mut q = 0;
    while q < outer * n {
        assert!(from_clones.values[q].to_bits() == all[q].to_bits(), "C12/C16 nested construction from clones: row-major concatenation");
        q += 1;
    }
    assert!(a.dimensions.len() == inner.len() + 1 && a.dimensions[0] == outer && dims_eq(&a.dimensions[1..], inner),
            "C16 nested arrays: dimensions [count, inner...]");
    assert!(a.values.len() == outer * n, "C16 nested arrays: element count");
    let mut i = 0;
    while i < outer * n {
        assert!(a.values[i].to_bits() == all[i].to_bits(), "C16 nested arrays: row-major concatenation");
        i += 1;
    }
}

/// the arr! macro at nesting depth 1..3
pub(super) fn arr_macro_check() {
    let v = sym_vec(8, sym_full);
    let a1 = arr![v[0], v[1], v[2]];
    assert!(a1.dimensions.len() == 1 && a1.dimensions[0] == 3 && a1.values[2].to_bits() == v[2].to_bits(), "C16 arr! depth 1");
    let a2 = arr![arr![v[0], v[1]], arr![v[2], v[3]], arr![v[4], v[5]]];
    assert!(a2.dimensions.len() == 2 && a2.dimensions[0] == 3 && a2.dimensions[1] == 2, "C16 arr! depth 2 dimensions");
    assert!(a2[vec![2, 1]].to_bits() == v[5].to_bits() && a2[vec![1, 0]].to_bits() == v[2].to_bits(), "C16 arr! depth 2 layout");
    let a3 = arr![arr![arr![v[0], v[1]], arr![v[2], v[3]]], arr![arr![v[4], v[5]], arr![v[6], v[7]]]];
    assert!(a3.dimensions.len() == 3 && a3.dimensions[0] == 2 && a3.dimensions[1] == 2 && a3.dimensions[2] == 2, "C16 arr! depth 3 dimensions");
    assert!(a3[vec![1, 0, 1]].to_bits() == v[5].to_bits() && a3[6].to_bits() == v[6].to_bits(), "C16 arr! depth 3 layout");
}

macro_rules! fi_instance {
    ($name:ident, $unwind:expr, $rank:expr, $extra:expr) => { vk_harness!($name, $unwind, { fi_check($rank, $extra); }); };
}
macro_rules! ctor_instance {
    ($name:ident, $unwind:expr, [$($d:expr),*], $len:expr) => { vk_harness!($name, $unwind, { ctor_check(&[$($d),*], $len); }); };
}
macro_rules! index_oob_instance {
    ($name:ident, $unwind:expr, [$($d:expr),*]) => { vk_harness!($name, $unwind, { index_oob_check(&[$($d),*]); }); };
}
macro_rules! nested_instance {
    ($name:ident, $unwind:expr, $outer:expr, [$($d:expr),*], $bad:expr) => { vk_harness!($name, $unwind, { nested_check($outer, &[$($d),*], $bad); }); };
}
macro_rules! arr_macro_instance {
    ($name:ident, $unwind:expr) => { vk_harness!($name, $unwind, { arr_macro_check(); }); };
}
