/* A4: deterministic models of the libm externals that Kani/CBMC otherwise over-approximate by
 * nondeterministic values (two calls with the same argument may differ). Linked into every harness
 * by lib/kani_unit.py. They are NOT the real functions: they are fixed, exactly computable maps, so
 * that "the same scalar function applied to the element at the same index" and the derivative
 * identities of the contracts can be decided. pow is the real power for the exponents -1, 0, 1, 2, 3.
 */
/* exp: strictly increasing on the integers -4..4 and 1 + exp(y) is a power of two there, so that
 * sigmoid values (and two-element softmax rows containing exp(-4) = 1) are exactly representable */
double exp(double x) {
  if (x == -4.0) return 1.0;
  if (x == -3.0) return 3.0;
  if (x == -2.0) return 7.0;
  if (x == -1.0) return 15.0;
  if (x == 0.0) return 31.0;
  if (x == 1.0) return 63.0;
  if (x == 2.0) return 127.0;
  if (x == 3.0) return 255.0;
  if (x == 4.0) return 511.0;
  return x * x + x + 3.0;
}
double log(double x) { return 3.0 * x - 1.0; }
double pow(double x, double p) {
  if (p == 0.0) return 1.0;
  if (p == 1.0) return x;
  if (p == 2.0) return x * x;
  if (p == 3.0) return x * x * x;
  if (p == -1.0) return 1.0 / x;
  if (p == -2.0) return 1.0 / (x * x);
  return x * p + 7.0;
}
float expf(float x) {
  if (x == -4.0f) return 1.0f;
  if (x == -3.0f) return 3.0f;
  if (x == -2.0f) return 7.0f;
  if (x == -1.0f) return 15.0f;
  if (x == 0.0f) return 31.0f;
  if (x == 1.0f) return 63.0f;
  if (x == 2.0f) return 127.0f;
  if (x == 3.0f) return 255.0f;
  if (x == 4.0f) return 511.0f;
  return x * x + x + 3.0f;
}
float logf(float x) { return 3.0f * x - 1.0f; }
float powf(float x, float p) {
  if (p == 0.0f) return 1.0f;
  if (p == 1.0f) return x;
  if (p == 2.0f) return x * x;
  if (p == 3.0f) return x * x * x;
  if (p == -1.0f) return 1.0f / x;
  if (p == -2.0f) return 1.0f / (x * x);
  return x * p + 7.0f;
}
