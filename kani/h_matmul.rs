// ---------------------------------------------------------------------------------------------
// C05: contract of Array::matmul for one concrete (shape, transposition, additive-term) class.
// Values are symbolic small integers (A2: every intermediate is exact, so any evaluation order of
// the sums gives the same bits and `==` decides the real-number statement).
//
//   requires  ranks >= 1
//   ensures   rank >= 2 operands, inner dimensions equal after transposition, leading dimensions
//             broadcast-compatible:
//                 dims(result) = [lead..., rows, cols]
//                 result[l, r, j] = sum_k op(A)[l|A, r, k] * op(B)[l|B, k, j] + c[(r, j)|c]
//             rank-1 operand next to a rank >= 2 operand: as a one-row matrix
//             two untransposed rank-1 operands: dims [1], their dot product
//             mismatching inner dimension: the call panics
//             operands unchanged; result of untracked operands untracked
// ---------------------------------------------------------------------------------------------

/// view an operand as (leading dims, rows, cols) of op(X); rank-1 = one-row matrix
pub(super) fn mm_view(d: &[usize], t: bool) -> (Vec<usize>, usize, usize, usize, usize) {
    // returns (lead, stored_rows, stored_cols, op_rows, op_cols)
    let (lead, sr, sc) = if d.len() >= 2 {
        (d[..d.len() - 2].to_vec(), d[d.len() - 2], d[d.len() - 1])
    } else {
        (Vec::new(), 1, d[0])
    };
    if t {
        (lead, sr, sc, sc, sr)
    } else {
        (lead, sr, sc, sr, sc)
    }
}

/// element (r, k) of op(X) for batch offset `base`
pub(super) fn mm_at(x: &Array, base: usize, sr: usize, sc: usize, t: bool, r: usize, k: usize) -> Float {
    if t {
        x.values[base + k * sc + r]
    } else {
        x.values[base + r * sc + k]
    }
}

pub(super) fn mm_check(ad: &[usize], at: bool, bd: &[usize], bt: bool, cd: &[usize], expect_dims: &[usize]) {
    let a = mk(ad, sym_vec(numel(ad), sym_val));
    let b = mk(bd, sym_vec(numel(bd), sym_val));
    let c = if cd.is_empty() { None } else { Some(mk(cd, sym_vec(numel(cd), sym_val))) };
    let (sa, sb) = (snap(&a), snap(&b));
    let (la, asr, asc, rows, n1) = mm_view(ad, at);
    // "two untransposed rank-1 operands give their dot product": the second one acts as a column
    let bt_o = if ad.len() == 1 && bd.len() == 1 && !at && !bt { true } else { bt };
    let (lb, bsr, bsc, n2, cols) = mm_view(bd, bt_o);
    let lead = bcast_dims(&la, &lb);
    if n1 != n2 || lead.is_none() {
        let _r = Array::matmul((&a, at), (&b, bt), c.as_ref());
        vk_must_not_return!();
        return;
    }
    let lead = lead.unwrap();
    let r = Array::matmul((&a, at), (&b, bt), c.as_ref());
    // the statement's dimensions, given explicitly per instance (rank-1 forms differ)
    assert!(dims_eq(&r.dimensions, expect_dims), "C05 result dimensions [leading..., rows, columns]");
    assert!(r.values.len() == numel(&lead) * rows * cols, "C05 result element count");
    let nl = numel(&lead);
    let mut l = 0;
    while l < nl {
        let li = unravel(l, &lead);
        let abase = bcast_src(&li, &lead, &la) * asr * asc;
        let bbase = bcast_src(&li, &lead, &lb) * bsr * bsc;
        let mut i = 0;
        while i < rows {
            let mut j = 0;
            while j < cols {
                let mut s: Float = 0.0;
                let mut k = 0;
                while k < n1 {
                    s = s + mm_at(&a, abase, asr, asc, at, i, k) * mm_at(&b, bbase, bsr, bsc, bt_o, k, j);
                    k += 1;
                }
                if let Some(cc) = &c {
                    // additive term broadcast over rows and batches: [cols] / [rows,cols] / [1,cols] / [1]
                    let cv = if cc.values.len() == 1 {
                        cc.values[0]
                    } else if cd.len() >= 2 && cd[cd.len() - 2] != 1 {
                        cc.values[i * cols + j]
                    } else {
                        cc.values[j]
                    };
                    s = s + cv;
                }
                assert!(r.values[(l * rows + i) * cols + j] == s, "C05 element = op(A) x op(B) + c");
                j += 1;
            }
            i += 1;
        }
        l += 1;
    }
    assert!(unchanged(&a, &sa) && unchanged(&b, &sb), "C08 operands unchanged");
    assert!(!r.is_tracked.get() && r.children.is_empty() && r.backward_op.is_none(),
            "C09 result of untracked operands is untracked");
}

macro_rules! mm_instance {
    ($name:ident, $unwind:expr, [$($a:expr),*], $at:expr, [$($b:expr),*], $bt:expr, [$($c:expr),*], [$($e:expr),*]) => {
        vk_harness!($name, $unwind, { mm_check(&[$($a),*], $at, &[$($b),*], $bt, &[$($c),*], &[$($e),*]); });
    };
}

// ---------------------------------------------------------------------------------------------
// C02: derivative of matmul through a real backward pass; oracle = transpose-Jacobian applied to
// the seed, accumulated by brute force over (batch, row, column, k).
// ---------------------------------------------------------------------------------------------
pub(super) fn mm_idx(base: usize, sc: usize, t: bool, r: usize, k: usize) -> usize {
    if t { base + k * sc + r } else { base + r * sc + k }
}

pub(super) fn mm_grad_check(ad: &[usize], at: bool, bd: &[usize], bt: bool, cd: &[usize], ta: bool, tb: bool, tc: bool) {
    let a0 = mk(ad, sym_vec(numel(ad), sym_val));
    let b0 = mk(bd, sym_vec(numel(bd), sym_val));
    let a = if ta { a0.tracked() } else { a0 };
    let b = if tb { b0.tracked() } else { b0 };
    let c = if cd.is_empty() { None } else {
        let c0 = mk(cd, sym_vec(numel(cd), sym_val));
        Some(if tc { c0.tracked() } else { c0 })
    };
    let bt_o = if ad.len() == 1 && bd.len() == 1 && !at && !bt { true } else { bt };
    let (la, asr, asc, rows, n1) = mm_view(ad, at);
    let (lb, bsr, bsc, _n2, cols) = mm_view(bd, bt_o);
    let lead = bcast_dims(&la, &lb).unwrap();
    let r = Array::matmul((&a, at), (&b, bt), c.as_ref());
    assert!(r.is_tracked.get() == (ta || tb || (tc && c.is_some())), "C09 result tracked iff an operand (incl. the additive term) is tracked");
    let on = r.values.len();
    let sv = sym_vec(on, sym_val);
    r.backward(Some(mk(&r.dimensions.clone(), sv.clone())));
    let mut ea: Vec<Float> = vec![0.0; numel(ad)];
    let mut eb: Vec<Float> = vec![0.0; numel(bd)];
    let mut ec: Vec<Float> = vec![0.0; if cd.is_empty() { 1 } else { numel(cd) }];
    let nl = numel(&lead);
    let mut l = 0;
    while l < nl {
        let li = unravel(l, &lead);
        let abase = bcast_src(&li, &lead, &la) * asr * asc;
        let bbase = bcast_src(&li, &lead, &lb) * bsr * bsc;
        let mut i = 0;
        while i < rows {
            let mut j = 0;
            while j < cols {
                let s = sv[(l * rows + i) * cols + j];
                let mut k = 0;
                while k < n1 {
                    let ia = mm_idx(abase, asc, at, i, k);
                    let ib = mm_idx(bbase, bsc, bt_o, k, j);
                    ea[ia] = ea[ia] + s * b.values[ib];
                    eb[ib] = eb[ib] + s * a.values[ia];
                    k += 1;
                }
                if !cd.is_empty() {
                    let ic = if numel(cd) == 1 { 0 } else if cd.len() >= 2 && cd[cd.len() - 2] != 1 { i * cols + j } else { j };
                    ec[ic] = ec[ic] + s;
                }
                j += 1;
            }
            i += 1;
        }
        l += 1;
    }
    if ta {
        let g = grad_of(&a).unwrap();
        assert!(dims_eq(&g.dimensions, ad), "C03 gradient has the operand's dimensions");
        let mut p = 0;
        while p < numel(ad) { assert!(g.values[p] == ea[p], "C02 matmul: gradient of the left operand"); p += 1; }
    } else {
        assert!(grad_of(&a).is_none(), "C09 untracked operand receives no gradient");
    }
    if tb {
        let g = grad_of(&b).unwrap();
        assert!(dims_eq(&g.dimensions, bd), "C03 gradient has the operand's dimensions");
        let mut p = 0;
        while p < numel(bd) { assert!(g.values[p] == eb[p], "C02 matmul: gradient of the right operand"); p += 1; }
    } else {
        assert!(grad_of(&b).is_none(), "C09 untracked operand receives no gradient");
    }
    if let Some(cc) = &c {
        if tc {
            let g = grad_of(cc).unwrap();
            assert!(dims_eq(&g.dimensions, cd), "C03 gradient has the operand's dimensions");
            let mut p = 0;
            while p < numel(cd) { assert!(g.values[p] == ec[p], "C02 matmul: gradient of the additive term (seed summed over rows and batches)"); p += 1; }
        } else {
            assert!(grad_of(cc).is_none(), "C09 untracked operand receives no gradient");
        }
    }
}

macro_rules! mm_grad_instance {
    ($name:ident, $unwind:expr, [$($a:expr),*], $at:expr, [$($b:expr),*], $bt:expr, [$($c:expr),*], $ta:expr, $tb:expr, $tc:expr) => {
        vk_harness!($name, $unwind, { mm_grad_check(&[$($a),*], $at, &[$($b),*], $bt, &[$($c),*], $ta, $tb, $tc); });
    };
}
