// Generated into <scratch>/src/array/verif_kani.rs on every run (never committed to /repo).
// It is compiled twice from the same text:
//   * by Kani (cfg(kani)): every `vk_harness!` function is a #[kani::proof] harness whose inputs
//     come from kani::any();
//   * by rustc as an ordinary test module (--cfg verif_replay): the same harness bodies run natively
//     against the real code, with the inputs popped from the VERIF_REPLAY environment variable.
//     This is how a CBMC counterexample is replayed against the real code.
#![allow(dead_code, unused_imports, unused_variables, unused_mut, unused_macros, clippy::all)]

use super::*;
use crate::numbers::Float;
use std::cell::RefCell;
use std::collections::VecDeque;
use std::rc::Rc;

// ---------------------------------------------------------------- A3: drop stub (Kani only)
#[cfg(kani)]
pub(super) fn noop_drop<T: ?Sized, A: std::alloc::Allocator>(_: &mut Rc<T, A>) {}

// ---------------------------------------------------------------- symbolic input shim
#[cfg(not(kani))]
thread_local! {
    static REPLAY: RefCell<Option<VecDeque<i128>>> = RefCell::new(None);
}

#[cfg(not(kani))]
fn replay_pop() -> i128 {
    REPLAY.with(|r| {
        let mut r = r.borrow_mut();
        if r.is_none() {
            let s = std::env::var("VERIF_REPLAY").unwrap_or_default();
            *r = Some(
                s.split(',')
                    .filter(|x| !x.trim().is_empty())
                    .map(|x| x.trim().parse::<i128>().expect("bad VERIF_REPLAY"))
                    .collect(),
            );
        }
        // inputs not mentioned in the counterexample are irrelevant to it: use 0
        r.as_mut().unwrap().pop_front().unwrap_or(0)
    })
}

/// The only source of nondeterminism in every harness (one call = one input, in call order).
#[cfg(kani)]
#[inline(never)]
pub(super) fn sym_i64() -> i64 {
    let vk_input: i64 = kani::any();
    vk_input
}
#[cfg(not(kani))]
pub(super) fn sym_i64() -> i64 {
    replay_pop() as i64
}

#[cfg(kani)]
pub(super) fn vassume(b: bool) {
    kani::assume(b)
}
#[cfg(not(kani))]
pub(super) fn vassume(b: bool) {
    if !b {
        // a replayed input outside the harness precondition: not a counterexample
        println!("VERIF_REPLAY_ASSUMPTION_VIOLATED");
        std::process::exit(3);
    }
}

/// A2: exact-arithmetic domain, integers in [-4, 4] as Float.
pub(super) fn sym_val() -> Float {
    let v = sym_i64();
    vassume(v >= -4 && v <= 4);
    v as Float
}
/// non-zero small integer
pub(super) fn sym_nz() -> Float {
    let v = sym_i64();
    vassume(v >= -4 && v <= 4 && v != 0);
    v as Float
}
/// divisor domain: +-1, +-2, +-4 (quotients of small integers stay exact)
pub(super) fn sym_pow2() -> Float {
    let v = sym_i64();
    vassume(v == 1 || v == 2 || v == 4 || v == -1 || v == -2 || v == -4);
    v as Float
}
/// strictly positive small integer (ln / powf domain)
pub(super) fn sym_pos() -> Float {
    let v = sym_i64();
    vassume(v >= 1 && v <= 4);
    v as Float
}
/// full bit-pattern domain of Float (NaN, infinities, signed zeros, subnormals)
#[cfg(not(feature = "f32"))]
pub(super) fn sym_full() -> Float {
    Float::from_bits(sym_i64() as u64)
}
#[cfg(feature = "f32")]
pub(super) fn sym_full() -> Float {
    Float::from_bits(sym_i64() as u32)
}
pub(super) fn sym_bool() -> bool {
    let v = sym_i64();
    vassume(v == 0 || v == 1);
    v == 1
}
pub(super) fn sym_vec(n: usize, f: fn() -> Float) -> Vec<Float> {
    let mut v = Vec::with_capacity(n);
    let mut i = 0;
    while i < n {
        v.push(f());
        i += 1;
    }
    v
}

/// long vectors: symbolic at the first, middle and last position, concrete small integers elsewhere
/// (keeps SAT cost flat while every position still contributes to sums / copies)
pub(super) fn sym_vec_sparse(n: usize, f: fn() -> Float) -> Vec<Float> {
    let mut v = Vec::with_capacity(n);
    let mut i = 0;
    while i < n {
        if i == 0 || i == n / 2 || i + 1 == n {
            v.push(f());
        } else {
            v.push(((i % 3) + 1) as Float);
        }
        i += 1;
    }
    v
}

// ---------------------------------------------------------------- oracle helpers (spec side)
pub(super) fn numel(dims: &[usize]) -> usize {
    let mut p = 1;
    let mut i = 0;
    while i < dims.len() {
        p *= dims[i];
        i += 1;
    }
    p
}

/// multi-index of flat row-major index `flat` in `dims` (rank <= 6)
pub(super) fn unravel(mut flat: usize, dims: &[usize]) -> [usize; 6] {
    let mut idx = [0usize; 6];
    let mut k = dims.len();
    while k > 0 {
        k -= 1;
        idx[k] = flat % dims[k];
        flat /= dims[k];
    }
    idx
}

/// row-major offset of multi-index idx[0..dims.len()] in dims
pub(super) fn ravel(idx: &[usize], dims: &[usize]) -> usize {
    let mut acc = 0;
    let mut k = 0;
    while k < dims.len() {
        acc = acc * dims[k] + idx[k];
        k += 1;
    }
    acc
}

/// Right-aligned broadcasting (property C04): the flat index in an operand of dimensions `dims`
/// that corresponds to multi-index `oidx` of the output of dimensions `odims`
/// (index 0 along the operand's unit / missing dimensions).
pub(super) fn bcast_src(oidx: &[usize; 6], odims: &[usize], dims: &[usize]) -> usize {
    let shift = odims.len() - dims.len();
    let mut acc = 0;
    let mut k = 0;
    while k < dims.len() {
        let i = if dims[k] == 1 { 0 } else { oidx[k + shift] };
        acc = acc * dims[k] + i;
        k += 1;
    }
    acc
}

/// pairwise-maximum dimensions, right-aligned; None if incompatible (property C04)
pub(super) fn bcast_dims(a: &[usize], b: &[usize]) -> Option<Vec<usize>> {
    let n = if a.len() > b.len() { a.len() } else { b.len() };
    let mut out = vec![0usize; n];
    let mut k = 0;
    while k < n {
        let da = if k < a.len() { a[a.len() - 1 - k] } else { 1 };
        let db = if k < b.len() { b[b.len() - 1 - k] } else { 1 };
        if !(da == db || da == 1 || db == 1) {
            return None;
        }
        out[n - 1 - k] = if da > db { da } else { db };
        k += 1;
    }
    Some(out)
}

pub(super) fn dims_eq(a: &[usize], b: &[usize]) -> bool {
    if a.len() != b.len() {
        return false;
    }
    let mut k = 0;
    while k < a.len() {
        if a[k] != b[k] {
            return false;
        }
        k += 1;
    }
    true
}

pub(super) fn mk(dims: &[usize], vals: Vec<Float>) -> Array {
    Array::from((dims.to_vec(), vals))
}

/// snapshot used by the C08 frame checks: (dims, bit patterns of the values)
pub(super) struct Snap {
    dims: Vec<usize>,
    bits: Vec<u64>,
}
pub(super) fn snap(a: &Array) -> Snap {
    let mut bits = Vec::with_capacity(a.values.len());
    let mut i = 0;
    while i < a.values.len() {
        bits.push(a.values[i].to_bits() as u64);
        i += 1;
    }
    Snap { dims: a.dimensions.clone(), bits }
}
pub(super) fn unchanged(a: &Array, s: &Snap) -> bool {
    if !dims_eq(&a.dimensions, &s.dims) || a.values.len() != s.bits.len() {
        return false;
    }
    let mut i = 0;
    while i < s.bits.len() {
        if a.values[i].to_bits() as u64 != s.bits[i] {
            return false;
        }
        i += 1;
    }
    true
}

/// graph invariant Clean for one node (DESIGN 6): no pending count, no pending delta
pub(super) fn node_clean(a: &Array) -> bool {
    if a.consumer_count.get() != 0 {
        return false;
    }
    let d = a.delta.take();
    let none = d.is_none();
    a.delta.set(d);
    none
}

pub(super) fn grad_of(a: &Array) -> Option<Array> {
    a.gradient.borrow().clone()
}

/// Harness declaration: a #[kani::proof] under Kani, a #[test] in the replay build.
macro_rules! vk_harness {
    ($name:ident, $unwind:expr, $body:block) => {
        #[cfg_attr(kani, kani::proof)]
        #[cfg_attr(kani, kani::unwind($unwind))]
        #[cfg_attr(kani, kani::stub(std::rc::Rc::drop_slow, noop_drop))]
        #[cfg_attr(not(kani), test)]
        pub(super) fn $name() $body
    };
}
/// Same, but with the real `Rc` drop glue (needed where reference counts are the observable).
macro_rules! vk_harness_realdrop {
    ($name:ident, $unwind:expr, $body:block) => {
        #[cfg_attr(kani, kani::proof)]
        #[cfg_attr(kani, kani::unwind($unwind))]
        #[cfg_attr(not(kani), test)]
        pub(super) fn $name() $body
    };
}
/// Marker placed after a call that the contract says must panic ("refuses").
macro_rules! vk_must_not_return {
    () => {
        assert!(false, "VK_MUST_NOT_RETURN");
    };
}
