// ---------------------------------------------------------------------------------------------
// C04 (and the C08 / C09 side conditions): contract of the element-wise operations for one
// concrete shape pair. Values are symbolic.
//
//   requires  ranks >= 1
//   ensures   if the right-aligned dimensions are pairwise equal or 1:
//                 dims(result) = pairwise maximum
//                 result[i]    = f(a[i projected onto a], b[i projected onto b])   (bitwise)
//                 a, b unchanged; result of untracked operands is untracked and keeps no graph
//             otherwise: the call panics (never returns)
// ---------------------------------------------------------------------------------------------
pub(super) const EW_ALPHA: Float = -2.0;

pub(super) fn ew_apply(op: u8, a: &Array, b: &Array) -> Array {
    match op {
        0 => a + b,
        1 => a - b,
        2 => a * b,
        3 => a / b,
        5 => Array::axpy(0.0, a, b),
        _ => Array::axpy(EW_ALPHA, a, b),
    }
}

pub(super) fn ew_scalar(op: u8, x: Float, y: Float) -> Float {
    match op {
        0 => x + y,
        1 => x - y,
        2 => x * y,
        3 => x / y,
        5 => 0.0 * x + y,
        _ => EW_ALPHA * x + y,
    }
}

pub(super) fn feq_bits(x: Float, y: Float) -> bool {
    x.to_bits() == y.to_bits() || (x.is_nan() && y.is_nan())
}

pub(super) fn ew_check(op: u8, ad: &[usize], bd: &[usize], full: bool) {
    let f: fn() -> Float = if full { sym_full } else { sym_val };
    let a = mk(ad, sym_vec(numel(ad), f));
    let b = mk(bd, sym_vec(numel(bd), f));
    let sa = snap(&a);
    let sb = snap(&b);
    match bcast_dims(ad, bd) {
        Some(od) => {
            let r = ew_apply(op, &a, &b);
            assert!(dims_eq(&r.dimensions, &od), "C04 result dimensions are the pairwise maximum");
            assert!(r.values.len() == numel(&od), "C04 result element count");
            let mut i = 0;
            while i < numel(&od) {
                let oi = unravel(i, &od);
                let x = a.values[bcast_src(&oi, &od, ad)];
                let y = b.values[bcast_src(&oi, &od, bd)];
                assert!(
                    feq_bits(r.values[i], ew_scalar(op, x, y)),
                    "C04 element = scalar op of the operands' elements at the broadcast index"
                );
                i += 1;
            }
            assert!(unchanged(&a, &sa) && unchanged(&b, &sb), "C08 operands unchanged");
            assert!(
                !r.is_tracked.get() && r.children.is_empty() && r.backward_op.is_none(),
                "C09 result of untracked operands is untracked and keeps no reference"
            );
        }
        None => {
            let _r = ew_apply(op, &a, &b);
            vk_must_not_return!();
        }
    }
}

macro_rules! ew_instance {
    ($name:ident, $unwind:expr, $op:expr, [$($a:expr),*], [$($b:expr),*], $full:expr) => {
        vk_harness!($name, $unwind, { ew_check($op, &[$($a),*], &[$($b),*], $full); });
    };
}

// ---------------------------------------------------------------------------------------------
// C02 / C03: derivatives of the binary element-wise operations through a real backward pass.
//   ensures  gradient(a)[p] = sum over output indices i that project onto p of seed[i] * df/dx,
//            with the dimensions of a (C03: the adjoint is summed over the broadcast positions);
//            likewise for b; an untracked operand receives nothing (C09).
// Division uses divisors in {+-1, +-2, +-4} so that every quotient is exact.
// ---------------------------------------------------------------------------------------------
pub(super) fn ew_dfdx(op: u8, x: Float, y: Float) -> Float {
    match op {
        0 => 1.0,
        1 => 1.0,
        2 => y,
        3 => 1.0 / y,
        _ => EW_ALPHA,
    }
}
pub(super) fn ew_dfdy(op: u8, x: Float, y: Float) -> Float {
    match op {
        0 => 1.0,
        1 => -1.0,
        2 => x,
        3 => -x / (y * y),
        _ => 1.0,
    }
}

pub(super) fn ew_grad_check(op: u8, ad: &[usize], bd: &[usize], ta: bool, tb: bool) {
    let a0 = mk(ad, sym_vec(numel(ad), sym_val));
    let b0 = mk(bd, sym_vec(numel(bd), if op == 3 { sym_pow2 } else { sym_val }));
    let a = if ta { a0.tracked() } else { a0 };
    let b = if tb { b0.tracked() } else { b0 };
    let od = bcast_dims(ad, bd).unwrap();
    let r = ew_apply(op, &a, &b);
    assert!(r.is_tracked.get() == (ta || tb), "C09 result tracked iff an operand is tracked");
    let on = numel(&od);
    let sv = sym_vec(on, sym_val);
    r.backward(Some(mk(&od, sv.clone())));
    let mut ea: Vec<Float> = vec![0.0; numel(ad)];
    let mut eb: Vec<Float> = vec![0.0; numel(bd)];
    let mut i = 0;
    while i < on {
        let oi = unravel(i, &od);
        let pa = bcast_src(&oi, &od, ad);
        let pb = bcast_src(&oi, &od, bd);
        let (x, y) = (a.values[pa], b.values[pb]);
        ea[pa] = ea[pa] + sv[i] * ew_dfdx(op, x, y);
        eb[pb] = eb[pb] + sv[i] * ew_dfdy(op, x, y);
        i += 1;
    }
    let ga = grad_of(&a);
    let gb = grad_of(&b);
    if ta {
        let g = ga.unwrap();
        assert!(dims_eq(&g.dimensions, ad), "C03 gradient has the operand's dimensions");
        let mut p = 0;
        while p < numel(ad) {
            assert!(g.values[p] == ea[p], "C02/C03 gradient = transpose-Jacobian x seed, summed over the broadcast positions");
            p += 1;
        }
    } else {
        assert!(ga.is_none(), "C09 untracked operand receives no gradient");
    }
    if tb {
        let g = gb.unwrap();
        assert!(dims_eq(&g.dimensions, bd), "C03 gradient has the operand's dimensions");
        let mut p = 0;
        while p < numel(bd) {
            assert!(g.values[p] == eb[p], "C02/C03 gradient = transpose-Jacobian x seed, summed over the broadcast positions");
            p += 1;
        }
    } else {
        assert!(gb.is_none(), "C09 untracked operand receives no gradient");
    }
    assert!(node_clean(&a) && node_clean(&b) && node_clean(&r), "C10 no residue");
    assert!(a.is_tracked.get() == ta && b.is_tracked.get() == tb, "C09 flags restored");
}

macro_rules! ew_grad_instance {
    ($name:ident, $unwind:expr, $op:expr, [$($a:expr),*], [$($b:expr),*], $ta:expr, $tb:expr) => {
        vk_harness!($name, $unwind, { ew_grad_check($op, &[$($a),*], &[$($b),*], $ta, $tb); });
    };
}

// ---------------------------------------------------------------------------------------------
// C03: flatten_to (reduction of an adjoint to an array's dimensions) and the first / later
// contribution handling when a broadcast operand is used several times in one graph.
// ---------------------------------------------------------------------------------------------
pub(super) fn flatten_check(sd: &[usize], td: &[usize]) {
    let xv = sym_vec(numel(sd), sym_val);
    let x = mk(sd, xv.clone());
    let r = x.flatten_to(td);
    assert!(dims_eq(&r.dimensions, td), "C03 reduced adjoint has exactly the target dimensions");
    let tn = numel(td);
    assert!(r.values.len() == tn, "C03 element count");
    let mut e: Vec<Float> = vec![0.0; tn];
    // right-align the target inside the source rank (a longer target only adds leading unit dims)
    let mut i = 0;
    while i < numel(sd) {
        let si = unravel(i, sd);
        // project: walk from the last dimension
        let mut off = 0;
        let mut stride = 1;
        let mut k = 0;
        while k < td.len() {
            let tdim = td[td.len() - 1 - k];
            if k < sd.len() && tdim != 1 {
                off += si[sd.len() - 1 - k] * stride;
            }
            stride *= tdim;
            k += 1;
        }
        e[off] = e[off] + xv[i];
        i += 1;
    }
    let mut j = 0;
    while j < tn {
        assert!(r.values[j] == e[j], "C03 reduced adjoint = sum of the adjoint over the broadcast positions");
        j += 1;
    }
}

/// b (dims bd) is broadcast against a (dims ad) in `uses` different operations of one graph
pub(super) fn ew_multiuse_check(ad: &[usize], bd: &[usize], uses: usize, passes: usize) {
    let a = mk(ad, sym_vec(numel(ad), sym_val)).tracked();
    let b = mk(bd, sym_vec(numel(bd), sym_val)).tracked();
    let od = bcast_dims(ad, bd).unwrap();
    // r = a*b (+ (a+b)) (+ (a-b)) ... : d r/d b = a (+1) (-1)
    let mut r = &a * &b;
    if uses >= 2 { r = &r + &(&a + &b); }
    if uses >= 3 { r = &r + &(&b - &a); }
    // uses == 4: a use of b that is NOT broadcast (its adjoint arrives with b's own shape)
    if uses >= 4 { r = &r + &(&b * 3.0); }
    let on = numel(&od);
    let sv = sym_vec(on, sym_val);
    let mut p = 0;
    while p < passes {
        r.backward(Some(mk(&od, sv.clone())));
        p += 1;
    }
    let mut ea: Vec<Float> = vec![0.0; numel(ad)];
    let mut eb: Vec<Float> = vec![0.0; numel(bd)];
    let mut i = 0;
    while i < on {
        let oi = unravel(i, &od);
        let pa = bcast_src(&oi, &od, ad);
        let pb = bcast_src(&oi, &od, bd);
        let mut da = b.values[pb];
        let mut db = a.values[pa];
        if uses >= 2 { da = da + 1.0; db = db + 1.0; }
        if uses >= 3 { da = da - 1.0; db = db + 1.0; }
        if uses >= 4 { db = db + 3.0; }
        ea[pa] = ea[pa] + (passes as Float) * sv[i] * da;
        eb[pb] = eb[pb] + (passes as Float) * sv[i] * db;
        i += 1;
    }
    let ga = grad_of(&a).unwrap();
    let gb = grad_of(&b).unwrap();
    assert!(dims_eq(&ga.dimensions, ad) && dims_eq(&gb.dimensions, bd), "C03 gradient has exactly the array's dimensions, for the first and every later contribution");
    let mut p = 0;
    while p < numel(ad) { assert!(ga.values[p] == ea[p], "C03 gradient of a = sum over broadcast positions and over all uses"); p += 1; }
    p = 0;
    while p < numel(bd) { assert!(gb.values[p] == eb[p], "C03 gradient of b = sum over broadcast positions and over all uses"); p += 1; }
    assert!(node_clean(&a) && node_clean(&b), "C10 no residue");
}

macro_rules! flatten_instance {
    ($name:ident, $unwind:expr, [$($s:expr),*], [$($t:expr),*]) => {
        vk_harness!($name, $unwind, { flatten_check(&[$($s),*], &[$($t),*]); });
    };
}
macro_rules! multiuse_instance {
    ($name:ident, $unwind:expr, [$($a:expr),*], [$($b:expr),*], $uses:expr, $passes:expr) => {
        vk_harness!($name, $unwind, { ew_multiuse_check(&[$($a),*], &[$($b),*], $uses, $passes); });
    };
}

// ---------------------------------------------------------------------------------------------
// C04: contract of element_wise_dimensions with SYMBOLIC dimensions (each in 1..=3), concrete ranks.
//   compatible pairs  -> pairwise maximum, right-aligned;  incompatible pairs -> refusal (panic)
// ---------------------------------------------------------------------------------------------
pub(super) fn ewd_check(ra: usize, rb: usize, compat: bool) {
    let mut a: Vec<usize> = Vec::with_capacity(ra);
    let mut b: Vec<usize> = Vec::with_capacity(rb);
    let mut k = 0;
    while k < ra { let d = sym_i64(); vassume(d >= 1 && d <= 3); a.push(d as usize); k += 1; }
    k = 0;
    while k < rb { let d = sym_i64(); vassume(d >= 1 && d <= 3); b.push(d as usize); k += 1; }
    let spec = bcast_dims(&a, &b);
    vassume(spec.is_some() == compat);
    let r = element_wise_dimensions(&a, &b);
    if compat {
        assert!(dims_eq(&r, &spec.unwrap()), "C04 broadcast dimensions are the right-aligned pairwise maximum");
    } else {
        vk_must_not_return!();
    }
}
macro_rules! ewd_instance {
    ($name:ident, $unwind:expr, $ra:expr, $rb:expr, $compat:expr) => {
        vk_harness!($name, $unwind, { ewd_check($ra, $rb, $compat); });
    };
}
