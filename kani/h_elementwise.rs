// ---------------------------------------------------------------------------------------------
// C04 (and the C08 / C09 side conditions): contract of the element-wise operations for one
// concrete shape pair. Values are symbolic.
//
//   requires  ranks >= 1
//   ensures   if the right-aligned dimensions are pairwise equal or 1:
//                 dims(result) = pairwise maximum
//                 result[i]    = f(a[i projected onto a], b[i projected onto b])   (bitwise)
//                 a, b unchanged; result of untracked operands is untracked and keeps no graph
//             otherwise: the call panics (never returns)
// ---------------------------------------------------------------------------------------------
pub(super) const EW_ALPHA: Float = -2.0;

pub(super) fn ew_apply(op: u8, a: &Array, b: &Array) -> Array {
    match op {
        0 => a + b,
        1 => a - b,
        2 => a * b,
        3 => a / b,
        _ => Array::axpy(EW_ALPHA, a, b),
    }
}

pub(super) fn ew_scalar(op: u8, x: Float, y: Float) -> Float {
    match op {
        0 => x + y,
        1 => x - y,
        2 => x * y,
        3 => x / y,
        _ => EW_ALPHA * x + y,
    }
}

pub(super) fn feq_bits(x: Float, y: Float) -> bool {
    x.to_bits() == y.to_bits() || (x.is_nan() && y.is_nan())
}

pub(super) fn ew_check(op: u8, ad: &[usize], bd: &[usize], full: bool) {
    let f: fn() -> Float = if full { sym_full } else { sym_val };
    let a = mk(ad, sym_vec(numel(ad), f));
    let b = mk(bd, sym_vec(numel(bd), f));
    let sa = snap(&a);
    let sb = snap(&b);
    match bcast_dims(ad, bd) {
        Some(od) => {
            let r = ew_apply(op, &a, &b);
            assert!(dims_eq(&r.dimensions, &od), "C04 result dimensions are the pairwise maximum");
            assert!(r.values.len() == numel(&od), "C04 result element count");
            let mut i = 0;
            while i < numel(&od) {
                let oi = unravel(i, &od);
                let x = a.values[bcast_src(&oi, &od, ad)];
                let y = b.values[bcast_src(&oi, &od, bd)];
                assert!(
                    feq_bits(r.values[i], ew_scalar(op, x, y)),
                    "C04 element = scalar op of the operands' elements at the broadcast index"
                );
                i += 1;
            }
            assert!(unchanged(&a, &sa) && unchanged(&b, &sb), "C08 operands unchanged");
            assert!(
                !r.is_tracked.get() && r.children.is_empty() && r.backward_op.is_none(),
                "C09 result of untracked operands is untracked and keeps no reference"
            );
        }
        None => {
            let _r = ew_apply(op, &a, &b);
            vk_must_not_return!();
        }
    }
}

macro_rules! ew_instance {
    ($name:ident, $unwind:expr, $op:expr, [$($a:expr),*], [$($b:expr),*], $full:expr) => {
        vk_harness!($name, $unwind, { ew_check($op, &[$($a),*], &[$($b),*], $full); });
    };
}
