/* A4: deterministic models of the libm externals that Kani/CBMC otherwise over-approximate by
 * nondeterministic values (two calls with the same argument may differ). Linked into every harness
 * by lib/kani_unit.py. They are NOT the real functions: they are fixed, exactly computable maps, so
 * that "the same scalar function applied to the element at the same index" and the derivative
 * identities of the contracts can be decided. pow is the real power for the exponents -1, 0, 1, 2, 3.
 */
/* exp(x) = 2^x on the integers -12..12: a true homomorphism (exp(a-b) = exp(a)/exp(b) exactly), so that
 * algebraically equivalent formulations of softmax (e.g. subtracting the row maximum first) give identical bits */
double exp(double x) {
  if (x == -12.0) return 0.000244140625;
  if (x == -11.0) return 0.00048828125;
  if (x == -10.0) return 0.0009765625;
  if (x == -9.0) return 0.001953125;
  if (x == -8.0) return 0.00390625;
  if (x == -7.0) return 0.0078125;
  if (x == -6.0) return 0.015625;
  if (x == -5.0) return 0.03125;
  if (x == -4.0) return 0.0625;
  if (x == -3.0) return 0.125;
  if (x == -2.0) return 0.25;
  if (x == -1.0) return 0.5;
  if (x == 0.0) return 1.0;
  if (x == 1.0) return 2.0;
  if (x == 2.0) return 4.0;
  if (x == 3.0) return 8.0;
  if (x == 4.0) return 16.0;
  if (x == 5.0) return 32.0;
  if (x == 6.0) return 64.0;
  if (x == 7.0) return 128.0;
  if (x == 8.0) return 256.0;
  if (x == 9.0) return 512.0;
  if (x == 10.0) return 1024.0;
  if (x == 11.0) return 2048.0;
  if (x == 12.0) return 4096.0;
  return x * x + x + 3.0;
}
double log(double x) { return 3.0 * x - 1.0; }
double pow(double x, double p) {
  if (p == 0.0) return 1.0;
  if (p == 1.0) return x;
  if (p == 2.0) return x * x;
  if (p == 3.0) return x * x * x;
  if (p == -1.0) return 1.0 / x;
  if (p == -2.0) return 1.0 / (x * x);
  return x * p + 7.0;
}
float expf(float x) {
  if (x == -12.0f) return 0.000244140625f;
  if (x == -11.0f) return 0.00048828125f;
  if (x == -10.0f) return 0.0009765625f;
  if (x == -9.0f) return 0.001953125f;
  if (x == -8.0f) return 0.00390625f;
  if (x == -7.0f) return 0.0078125f;
  if (x == -6.0f) return 0.015625f;
  if (x == -5.0f) return 0.03125f;
  if (x == -4.0f) return 0.0625f;
  if (x == -3.0f) return 0.125f;
  if (x == -2.0f) return 0.25f;
  if (x == -1.0f) return 0.5f;
  if (x == 0.0f) return 1.0f;
  if (x == 1.0f) return 2.0f;
  if (x == 2.0f) return 4.0f;
  if (x == 3.0f) return 8.0f;
  if (x == 4.0f) return 16.0f;
  if (x == 5.0f) return 32.0f;
  if (x == 6.0f) return 64.0f;
  if (x == 7.0f) return 128.0f;
  if (x == 8.0f) return 256.0f;
  if (x == 9.0f) return 512.0f;
  if (x == 10.0f) return 1024.0f;
  if (x == 11.0f) return 2048.0f;
  if (x == 12.0f) return 4096.0f;
  return x * x + x + 3.0f;
}
float logf(float x) { return 3.0f * x - 1.0f; }
float powf(float x, float p) {
  if (p == 0.0f) return 1.0f;
  if (p == 1.0f) return x;
  if (p == 2.0f) return x * x;
  if (p == 3.0f) return x * x * x;
  if (p == -1.0f) return 1.0f / x;
  if (p == -2.0f) return 1.0f / (x * x);
  return x * p + 7.0f;
}
