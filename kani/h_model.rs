// ---------------------------------------------------------------------------------------------
// C13 (gradient-descent update), C15 (layers, costs, model formulas), C14 (training iterations).
// Uses only the public API of the layer / model / optimizer modules, plus Array internals for the
// "fresh leaf" postconditions.
// ---------------------------------------------------------------------------------------------
use crate::activation;
use crate::cost;
use crate::initializer::Initializer;
use crate::layer::conv::Conv;
use crate::layer::dense::Dense;
use crate::layer::Layer;
use crate::model::Model;
use crate::optimizer::gd::GradientDescent;
use crate::optimizer::Optimizer;

/// learning rates that keep the arithmetic exact: 1, 2, 1/2
pub(super) fn sym_lr() -> Float {
    let v = sym_i64();
    vassume(v >= 0 && v <= 2);
    if v == 0 { 1.0 } else if v == 1 { 2.0 } else { 0.5 }
}

/// C13: update on up to three parameters with the given shapes; the subset holding a gradient is symbolic
pub(super) fn update_check(d0: &[usize], d1: &[usize], d2: &[usize], rounds: usize, mask: usize, lr: Float) {
    update_check_z(d0, d1, d2, rounds, mask, lr, 0, false);
}
/// `gconc`: gradients are CONCRETE (all zeros for the parameters in `zmask`, 1, 2, 3, ... otherwise), so that the step stays
/// decidable if a change makes its control flow depend on gradient values
pub(super) fn update_check_z(d0: &[usize], d1: &[usize], d2: &[usize], rounds: usize, mask: usize, lr: Float, zmask: usize, gconc: bool) {
    let shapes: [&[usize]; 3] = [d0, d1, d2];
    let count = if d2.is_empty() { if d1.is_empty() { 1 } else { 2 } } else { 3 };
    let gd = GradientDescent::new(lr);
    let mut params: Vec<Array> = Vec::with_capacity(count);
    let mut k = 0;
    while k < count {
        let tracked = k != 1; // the second parameter starts untracked (frozen-style handle)
        let p = mk(shapes[k], sym_vec(numel(shapes[k]), sym_val));
        params.push(if tracked { p.tracked() } else { p });
        k += 1;
    }
    let mut round = 0;
    while round < rounds {
        let mut has: Vec<bool> = Vec::with_capacity(count);
        let mut gvals: Vec<Vec<Float>> = Vec::with_capacity(count);
        let mut old: Vec<Array> = Vec::with_capacity(count);
        let mut old_flags: Vec<bool> = Vec::with_capacity(count);
        let mut olds: Vec<Snap> = Vec::with_capacity(count);
        k = 0;
        while k < count {
            // which parameters hold a gradient: bit k of `mask` in round 0, the complement afterwards
            let h = if round == 0 { (mask >> k) & 1 == 1 } else { (mask >> k) & 1 == 0 };
            let gv = if gconc {
                let mut v = Vec::with_capacity(numel(shapes[k]));
                let mut e = 0;
                while e < numel(shapes[k]) { v.push(if (zmask >> k) & 1 == 1 { 0.0 } else { (e + 1) as Float }); e += 1; }
                v
            } else { sym_vec(numel(shapes[k]), sym_val) };
            if h {
                *params[k].gradient_mut() = Some(mk(shapes[k], gv.clone()));
            }
            has.push(h);
            gvals.push(gv);
            old.push(params[k].clone()); // an older handle of the parameter
            old_flags.push(params[k].is_tracked.get());
            olds.push(snap(&params[k]));
            k += 1;
        }
        {
            let refs: Vec<&mut Array> = params.iter_mut().collect();
            gd.update(refs);
        }
        k = 0;
        while k < count {
            let p = &params[k];
            if has[k] {
                assert!(dims_eq(&p.dimensions, shapes[k]), "C13 updated parameter keeps its dimensions");
                let mut i = 0;
                while i < numel(shapes[k]) {
                    assert!(p.values[i] == old[k].values[i] - lr * gvals[k][i],
                            "C13 new = old - learning_rate * own gradient, element by element");
                    i += 1;
                }
                assert!(p.is_tracked.get(), "C13 updated parameter is tracked");
                assert!(grad_of(p).is_none() && node_clean(p) && p.children.is_empty() && p.backward_op.is_none(),
                        "C13 updated parameter is a fresh leaf with no gradient");
                assert!(!Rc::ptr_eq(&p.values, &old[k].values), "C08 update replaces the array, it does not mutate it");
                assert!(grad_of(&old[k]).is_none(), "C13 the gradient is cleared");
            } else {
                assert!(Rc::ptr_eq(&p.values, &old[k].values) && Rc::ptr_eq(&p.gradient, &old[k].gradient),
                        "C13 a parameter without a gradient is left untouched");
                assert!(p.is_tracked.get() == old_flags[k] && grad_of(p).is_none(), "C13 untouched parameter keeps its state");
            }
            assert!(unchanged(&old[k], &olds[k]), "C08 every older handle is intact after the update");
            k += 1;
        }
        round += 1;
    }
}

fn sym_init() -> Initializer {
    Box::new(|_| sym_val())
}

pub(super) fn act_apply(kind: u8, x: Float) -> Float {
    match kind {
        1 => if x > 0.0 { x } else { 0.0 },
        2 => 1.0 / (1.0 + (-x).exp()),
        _ => x,
    }
}

/// C15: Dense::forward = activation(x W^T + b) for [in] and [batch, in] inputs
pub(super) fn dense_check(batch: usize, n_in: usize, n_out: usize, act: u8) {
    let init = sym_init();
    let relu = activation::relu();
    let sigm = activation::sigmoid();
    let a = match act { 1 => Some(&relu), 2 => Some(&sigm), _ => None };
    let mut layer = Dense::new(n_in, n_out, &init, a);
    let (w, b) = {
        let ps = layer.parameters();
        assert!(ps.len() == 2, "C15 dense layer has weights and biases");
        (ps[0].clone(), ps[1].clone())
    };
    assert!(w.dimensions.len() == 2 && w.dimensions[0] == n_out && w.dimensions[1] == n_in && b.dimensions.len() == 1 && b.dimensions[0] == n_out,
            "C15 dense parameter shapes");
    assert!(w.is_tracked.get() && b.is_tracked.get() && node_clean(&w) && grad_of(&w).is_none(), "C14 parameters start as clean tracked leaves");
    let xd: Vec<usize> = if batch == 0 { vec![n_in] } else { vec![batch, n_in] };
    let rows = if batch == 0 { 1 } else { batch };
    let xv = sym_vec(rows * n_in, sym_val);
    let y = layer.forward(mk(&xd, xv.clone()));
    assert!(y.values.len() == rows * n_out, "C15 dense output element count");
    if batch == 0 {
        assert!(y.dimensions[y.dimensions.len() - 1] == n_out, "C15 dense output dimensions");
    } else {
        assert!(y.dimensions.len() == 2 && y.dimensions[0] == batch && y.dimensions[1] == n_out, "C15 dense output dimensions [batch, out]");
    }
    let mut r = 0;
    while r < rows {
        let mut o = 0;
        while o < n_out {
            let mut s: Float = 0.0;
            let mut k = 0;
            while k < n_in {
                s = s + xv[r * n_in + k] * w.values[o * n_in + k];
                k += 1;
            }
            s = s + b.values[o];
            assert!(y.values[r * n_out + o] == act_apply(act, s), "C15 dense layer = activation(x W^T + b)");
            o += 1;
        }
        r += 1;
    }
}

/// C15: Conv::forward = activation(conv(x, filters, stride) + b), one bias per filter
pub(super) fn conv_layer_check(batch: usize, depth: usize, rows: usize, cols: usize, count: usize, fr: usize, fc: usize, sr: usize, sc: usize, act: u8) {
    let init = sym_init();
    let a: Option<activation::Activation> = match act { 1 => Some(activation::relu()), _ => None };
    let mut layer = Conv::new((count, depth, fr, fc), (sr, sc), &init, a);
    let (f, b) = {
        let ps = layer.parameters();
        (ps[0].clone(), ps[1].clone())
    };
    assert!(b.values.len() == count && f.values.len() == count * depth * fr * fc, "C15 conv parameter sizes");
    let mut xd: Vec<usize> = if batch == 0 { Vec::new() } else { vec![batch] };
    xd.push(depth); xd.push(rows); xd.push(cols);
    let nb = if batch == 0 { 1 } else { batch };
    let xv = sym_vec(numel(&xd), sym_val);
    let y = layer.forward(mk(&xd, xv.clone()));
    let oy = (rows - fr) / sr + 1;
    let ox = (cols - fc) / sc + 1;
    assert!(y.values.len() == nb * count * oy * ox, "C15 conv layer output element count");
    let mut bi = 0;
    while bi < nb {
        let mut fi = 0;
        while fi < count {
            let mut yy = 0;
            while yy < oy {
                let mut xx = 0;
                while xx < ox {
                    let mut s: Float = 0.0;
                    let mut k = 0;
                    while k < depth {
                        let mut m = 0;
                        while m < fr {
                            let mut n = 0;
                            while n < fc {
                                s = s + xv[((bi * depth + k) * rows + yy * sr + m) * cols + xx * sc + n] * f.values[((fi * depth + k) * fr + m) * fc + n];
                                n += 1;
                            }
                            m += 1;
                        }
                        k += 1;
                    }
                    s = s + b.values[fi];
                    assert!(y.values[((bi * count + fi) * oy + yy) * ox + xx] == act_apply(act, s),
                            "C15 conv layer = activation(conv(x, filters, stride) + bias of the filter)");
                    xx += 1;
                }
                yy += 1;
            }
            fi += 1;
        }
        bi += 1;
    }
}

/// C15: mse = (target - output)^2 / element count; cross_entropy = -target*ln(output) / leading dim
pub(super) fn cost_check(dims: &[usize]) {
    cost_check_bt(dims, dims);
}
/// `tdims`: dimensions of the target (may be broadcast against the output)
pub(super) fn cost_check_bt(dims: &[usize], tdims: &[usize]) {
    let n = numel(dims);
    let ov = sym_vec(n, sym_ppow2);
    let tsmall = sym_vec(numel(tdims), sym_val);
    let mut tv: Vec<Float> = Vec::with_capacity(n);
    let mut e = 0;
    while e < n {
        let oi = unravel(e, dims);
        tv.push(tsmall[bcast_src(&oi, dims, tdims)]);
        e += 1;
    }
    let (o, t) = (mk(dims, ov.clone()), mk(tdims, tsmall.clone()));
    let m = (cost::mse())(&o, &t);
    let c = (cost::cross_entropy())(&o, &t);
    assert!(dims_eq(&m.dimensions, dims) && dims_eq(&c.dimensions, dims), "C15 costs keep the dimensions");
    let mut i = 0;
    while i < n {
        let d = tv[i] - ov[i];
        assert!(m.values[i] == (1.0 / (n as Float)) * d.powf(2.0), "C15 mse = (target - output)^2 / element count");
        assert!(c.values[i] == (1.0 / (dims[0] as Float)) * (-tv[i] * ov[i].ln()), "C15 cross-entropy = -target * ln(output) / leading dimension");
        i += 1;
    }
}

/// C15 + C14: a model of one or two dense layers: forward = composition; backward returns the sum of
/// the cost array; each training iteration returns the loss of the current parameters on the current
/// batch and moves every parameter by -lr * exact gradient of that loss (closed form for
/// linear layers + mse), independent of earlier iterations.
pub(super) fn train_check(batch: usize, n_in: usize, n_out: usize, iters: usize, lr: Float, phase: u8) {
    let init = sym_init();
    let mut layer = Dense::new(n_in, n_out, &init, None);
    let gd = GradientDescent::new(lr);
    let mse = cost::mse();
    // shadow copies of the parameters, updated by the oracle
    let (mut w, mut b): (Vec<Float>, Vec<Float>) = {
        let ps = layer.parameters();
        (ps[0].values().to_vec(), ps[1].values().to_vec())
    };
    let mut model = Model::new(vec![&mut layer], &gd, &mse);
    let rows = batch;
    let n = (rows * n_out) as Float;
    let mut it = 0;
    while it < iters {
        // phase 3 = phase 1 with a CONCRETE first batch (keeps the SAT problem of the later iterations small)
        let concrete = phase == 3 && it == 0;
        let xv = if concrete { vec![2.0; rows * n_in] } else { sym_vec(rows * n_in, sym_val) };
        let tv = if concrete { vec![1.0; rows * n_out] } else { sym_vec(rows * n_out, sym_val) };
        let y = model.forward(mk(&[batch, n_in], xv.clone()));
        // oracle forward, loss, gradients
        let mut yo: Vec<Float> = Vec::with_capacity(rows * n_out);
        let mut r = 0;
        while r < rows {
            let mut o = 0;
            while o < n_out {
                let mut s: Float = 0.0;
                let mut k = 0;
                while k < n_in { s = s + xv[r * n_in + k] * w[o * n_in + k]; k += 1; }
                yo.push(s + b[o]);
                o += 1;
            }
            r += 1;
        }
        let mut q = 0;
        while q < rows * n_out {
            assert!(y.values[q] == yo[q], "C15 model forward = composition of its layers");
            q += 1;
        }
        let loss = model.backward(mk(&[batch, n_out], tv.clone()));
        let mut lo: Float = 0.0;
        q = 0;
        while q < rows * n_out {
            let d = tv[q] - yo[q];
            lo = lo + (1.0 / n) * (d * d);
            q += 1;
        }
        assert!(loss == lo, "C14/C15 the iteration returns the loss (sum of the cost array) of the current parameters on the current batch");
        if phase == 1 || phase == 3 {
            // C15 only: the parameters hold the gradients of this loss; no update
            it += 1;
            continue;
        }
        model.update();
        // exact gradient of the loss: dL/dy = -2 (t - y) / n ; dW[o][k] = sum_r dL/dy[r][o] x[r][k] ; db[o] = sum_r dL/dy[r][o]
        let mut o = 0;
        while o < n_out {
            let mut gb: Float = 0.0;
            let mut r = 0;
            while r < rows {
                gb = gb + (-2.0 * (tv[r * n_out + o] - yo[r * n_out + o])) * (1.0 / n);
                r += 1;
            }
            let mut k = 0;
            while k < n_in {
                let mut gw: Float = 0.0;
                let mut r = 0;
                while r < rows {
                    gw = gw + ((-2.0 * (tv[r * n_out + o] - yo[r * n_out + o])) * (1.0 / n)) * xv[r * n_in + k];
                    r += 1;
                }
                w[o * n_in + k] = w[o * n_in + k] - lr * gw;
                k += 1;
            }
            b[o] = b[o] - lr * gb;
            o += 1;
        }
        it += 1;
    }
    drop(model);
    let ps = layer.parameters();
    if phase == 1 || phase == 3 {
        assert!(grad_of(ps[0]).is_some() && grad_of(ps[1]).is_some(), "C15 model backward differentiates the cost down to the parameters");
        return;
    }
    let mut q = 0;
    while q < n_out * n_in {
        assert!(ps[0].values()[q] == w[q], "C14 every parameter moved by -learning_rate x exact gradient of the current loss in every iteration");
        q += 1;
    }
    q = 0;
    while q < n_out {
        assert!(ps[1].values()[q] == b[q], "C14 bias moved by -learning_rate x exact gradient in every iteration");
        q += 1;
    }
    assert!(grad_of(ps[0]).is_none() && grad_of(ps[1]).is_none() && node_clean(ps[0]) && node_clean(ps[1])
            && ps[0].children.is_empty() && ps[0].is_tracked.get(), "C14 no gradient, graph or count leaks into the next iteration");
}

macro_rules! update_z_instance {
    ($name:ident, $unwind:expr, [$($a:expr),*], [$($b:expr),*], [$($c:expr),*], $rounds:expr, $mask:expr, $lr:expr, $zmask:expr) => {
        vk_harness!($name, $unwind, { update_check_z(&[$($a),*], &[$($b),*], &[$($c),*], $rounds, $mask, $lr, $zmask, true); });
    };
}
macro_rules! update_instance {
    ($name:ident, $unwind:expr, [$($a:expr),*], [$($b:expr),*], [$($c:expr),*], $rounds:expr, $mask:expr, $lr:expr) => {
        vk_harness!($name, $unwind, { update_check(&[$($a),*], &[$($b),*], &[$($c),*], $rounds, $mask, $lr); });
    };
}
macro_rules! dense_instance {
    ($name:ident, $unwind:expr, $batch:expr, $nin:expr, $nout:expr, $act:expr) => {
        vk_harness!($name, $unwind, { dense_check($batch, $nin, $nout, $act); });
    };
}
macro_rules! conv_layer_instance {
    ($name:ident, $unwind:expr, $batch:expr, $d:expr, $r:expr, $c:expr, $cnt:expr, $fr:expr, $fc:expr, $sr:expr, $sc:expr, $act:expr) => {
        vk_harness!($name, $unwind, { conv_layer_check($batch, $d, $r, $c, $cnt, $fr, $fc, $sr, $sc, $act); });
    };
}
macro_rules! cost_bt_instance {
    ($name:ident, $unwind:expr, [$($d:expr),*], [$($t:expr),*]) => { vk_harness!($name, $unwind, { cost_check_bt(&[$($d),*], &[$($t),*]); }); };
}
macro_rules! cost_instance {
    ($name:ident, $unwind:expr, [$($d:expr),*]) => { vk_harness!($name, $unwind, { cost_check(&[$($d),*]); }); };
}
macro_rules! train_instance {
    ($name:ident, $unwind:expr, $batch:expr, $nin:expr, $nout:expr, $iters:expr, $lr:expr, $phase:expr) => {
        vk_harness!($name, $unwind, { train_check($batch, $nin, $nout, $iters, $lr, $phase); });
    };
}

/// Model::update contract: every layer's parameters, in order, are handed to the optimizer
/// (each parameter meets its own gradient), nothing else changes.
pub(super) fn model_update_check(n_layers: usize, lr: Float) {
    let init = sym_init();
    let mut l0 = Dense::new(2, 1, &init, None);
    let mut l1 = Dense::new(1, 2, &init, None);
    let gd = GradientDescent::new(lr);
    let mse = cost::mse();
    let mut olds: Vec<Vec<Float>> = Vec::new();
    let mut grads: Vec<Vec<Float>> = Vec::new();
    {
        let mut ps = l0.parameters();
        if n_layers == 2 { ps.extend(l1.parameters()); }
        let mut k = 0;
        while k < ps.len() {
            let n = ps[k].values().len();
            let g = sym_vec(n, sym_val);
            olds.push(ps[k].values().to_vec());
            *ps[k].gradient_mut() = Some(mk(&ps[k].dimensions.clone(), g.clone()));
            grads.push(g);
            k += 1;
        }
    }
    {
        let mut model = if n_layers == 2 { Model::new(vec![&mut l0, &mut l1], &gd, &mse) } else { Model::new(vec![&mut l0], &gd, &mse) };
        model.update();
    }
    let mut ps = l0.parameters();
    if n_layers == 2 { ps.extend(l1.parameters()); }
    let mut k = 0;
    while k < ps.len() {
        let mut i = 0;
        while i < olds[k].len() {
            assert!(ps[k].values()[i] == olds[k][i] - lr * grads[k][i], "C14 Model::update steps every parameter of every layer with its own gradient");
            i += 1;
        }
        assert!(grad_of(ps[k]).is_none() && ps[k].is_tracked.get() && node_clean(ps[k]), "C14 parameters are fresh clean leaves after the update");
        k += 1;
    }
}
macro_rules! model_update_instance {
    ($name:ident, $unwind:expr, $layers:expr, $lr:expr) => { vk_harness!($name, $unwind, { model_update_check($layers, $lr); }); };
}

/// C14 (training iterations) with the optimizer applied directly to the layer's parameters: the
/// three-line plumbing Model::update -> Model::parameters (a flat_map over `dyn Layer`) is NOT
/// covered (CBMC does not finish on it); everything else of an iteration is the real code.
pub(super) fn train2_check(batch: usize, n_in: usize, n_out: usize, iters: usize, lr: Float) {
    let init = sym_init();
    let mut layer = Dense::new(n_in, n_out, &init, None);
    let gd = GradientDescent::new(lr);
    let mse = cost::mse();
    let (mut w, mut b): (Vec<Float>, Vec<Float>) = {
        let ps = layer.parameters();
        (ps[0].values().to_vec(), ps[1].values().to_vec())
    };
    let rows = batch;
    let n = (rows * n_out) as Float;
    let mut it = 0;
    while it < iters {
        let xv = sym_vec(rows * n_in, sym_val);
        let tv = sym_vec(rows * n_out, sym_val);
        let loss = {
            let mut model = Model::new(vec![&mut layer], &gd, &mse);
            let _y = model.forward(mk(&[batch, n_in], xv.clone()));
            model.backward(mk(&[batch, n_out], tv.clone()))
        };
        gd.update(layer.parameters());
        // oracle
        let mut yo: Vec<Float> = Vec::with_capacity(rows * n_out);
        let mut r = 0;
        while r < rows {
            let mut o = 0;
            while o < n_out {
                let mut s: Float = 0.0;
                let mut k = 0;
                while k < n_in { s = s + xv[r * n_in + k] * w[o * n_in + k]; k += 1; }
                yo.push(s + b[o]);
                o += 1;
            }
            r += 1;
        }
        let mut lo: Float = 0.0;
        let mut q = 0;
        while q < rows * n_out {
            let d = tv[q] - yo[q];
            lo = lo + (1.0 / n) * (d * d);
            q += 1;
        }
        assert!(loss == lo, "C14 the iteration returns the loss of the current parameters on the current batch");
        let mut o = 0;
        while o < n_out {
            let mut gb: Float = 0.0;
            let mut r = 0;
            while r < rows {
                gb = gb + (-2.0 * (tv[r * n_out + o] - yo[r * n_out + o])) * (1.0 / n);
                r += 1;
            }
            let mut k = 0;
            while k < n_in {
                let mut gw: Float = 0.0;
                let mut r = 0;
                while r < rows {
                    gw = gw + ((-2.0 * (tv[r * n_out + o] - yo[r * n_out + o])) * (1.0 / n)) * xv[r * n_in + k];
                    r += 1;
                }
                w[o * n_in + k] = w[o * n_in + k] - lr * gw;
                k += 1;
            }
            b[o] = b[o] - lr * gb;
            o += 1;
        }
        let ps = layer.parameters();
        q = 0;
        while q < n_out * n_in {
            assert!(ps[0].values()[q] == w[q], "C14 every parameter moves by -learning_rate x exact gradient of the current loss, whatever happened before");
            q += 1;
        }
        q = 0;
        while q < n_out {
            assert!(ps[1].values()[q] == b[q], "C14 bias moves by -learning_rate x exact gradient of the current loss");
            q += 1;
        }
        assert!(grad_of(ps[0]).is_none() && grad_of(ps[1]).is_none() && node_clean(ps[0]) && node_clean(ps[1])
                && ps[0].children.is_empty() && ps[0].is_tracked.get() && ps[1].is_tracked.get(),
                "C14 no gradient, graph or count leaks into the next iteration");
        it += 1;
    }
}
macro_rules! train2_instance {
    ($name:ident, $unwind:expr, $batch:expr, $nin:expr, $nout:expr, $iters:expr, $lr:expr) => {
        vk_harness!($name, $unwind, { train2_check($batch, $nin, $nout, $iters, $lr); });
    };
}
