// ---------------------------------------------------------------------------------------------
// K-graph: contract of `backward` (with `propagate_consumers`) on one concrete graph class.
//
// A graph class is a list of nodes over `nl` leaves; node k = (op, i, j) consumes earlier nodes.
// All arrays have the same concrete dimensions `dims` (1 element unless stated), values symbolic.
//
//   requires  Clean(G): every node has consumer_count = 0, no pending delta, no gradient
//   ensures   after root.backward(seed):
//     C01  every tracked leaf's gradient = seed * d(root)/d(leaf), the derivative being computed
//          independently by forward-mode (dual numbers) over the same node list
//     C03  gradient dims = the array's dims
//     C09  untracked leaves (and everything reachable only through them) hold no gradient; all
//          tracking flags as before; gradients are untracked, child-less arrays
//     C10  Clean(G) again; a second pass adds the same gradients again
//     C11  (user-op nodes) every derivative closure invoked exactly once, with the complete adjoint
//     C08  values / dims of every node unchanged
// ---------------------------------------------------------------------------------------------

pub(super) const G_ADD: u8 = 0;
pub(super) const G_MUL: u8 = 1;
pub(super) const G_SUB: u8 = 2;
pub(super) const G_NEG: u8 = 3; // unary, j ignored
pub(super) const G_SCALE: u8 = 4; // unary: 3.0 * x
pub(super) const G_UMUL: u8 = 5; // user-defined multiplication through Array::op (with counters)
pub(super) const G_UNTRACK: u8 = 6; // unary: clone of x with tracking switched off (an untracked intermediate)
pub(super) const G_CLONE: u8 = 7; // unary: a plain clone handle of x (C12)
pub(super) const G_RETRACK: u8 = 8; // unary: clone of x untracked and re-tracked (is_tracked, gradient not kept)

pub(super) struct UserOpLog {
    calls: Rc<Cell<usize>>,
    seen: Rc<RefCell<Vec<Float>>>,
}

/// user-defined element-wise multiplication supplied through the custom-operation entry point
pub(super) fn user_mul(a: &Array, b: &Array) -> (Array, UserOpLog) {
    let fwd: ForwardOp = Rc::new(|x: &[&Array]| {
        let n = x[0].values().len();
        let mut v = Vec::with_capacity(n);
        let mut i = 0;
        while i < n {
            v.push(x[0].values()[i] * x[1].values()[i]);
            i += 1;
        }
        Array::from((x[0].dimensions().to_vec(), v))
    });
    let calls = Rc::new(Cell::new(0usize));
    let seen: Rc<RefCell<Vec<Float>>> = Rc::new(RefCell::new(Vec::new()));
    let (calls2, seen2) = (Rc::clone(&calls), Rc::clone(&seen));
    let bwd: BackwardOp = Rc::new(move |c, t, d| {
        calls2.set(calls2.get() + 1);
        let n = d.values().len();
        let mut g0 = Vec::with_capacity(n);
        let mut g1 = Vec::with_capacity(n);
        let mut i = 0;
        while i < n {
            seen2.borrow_mut().push(d.values()[i]);
            g0.push(c[1].values()[i] * d.values()[i]);
            g1.push(c[0].values()[i] * d.values()[i]);
            i += 1;
        }
        vec![
            if t[0] { Some(Array::from((d.dimensions().to_vec(), g0))) } else { None },
            if t[1] { Some(Array::from((d.dimensions().to_vec(), g1))) } else { None },
        ]
    });
    let tracked = a.is_tracked.get() || b.is_tracked.get();
    let r = Array::op(&[a, b], fwd, if tracked { Some(bwd) } else { None });
    (r, UserOpLog { calls, seen })
}

pub(super) struct Graph {
    arrs: Vec<Array>,
    logs: Vec<Option<UserOpLog>>,
    /// is the node differentiable w.r.t. tracked leaves at all (tracked result)?
    live: Vec<bool>,
}

pub(super) fn g_build(dims: &[usize], nl: usize, tracked: &[bool], nodes: &[(u8, usize, usize)], conc: u8) -> Graph {
    let n = numel(dims);
    let mut arrs: Vec<Array> = Vec::with_capacity(nl + nodes.len());
    let mut logs: Vec<Option<UserOpLog>> = Vec::with_capacity(nl + nodes.len());
    let mut live: Vec<bool> = Vec::with_capacity(nl + nodes.len());
    let mut l = 0;
    while l < nl {
        // conc != 0: concrete special values (zeros included), so that the walk's control flow stays concrete even
        // if a change makes it depend on the values (zero-adjoint shortcuts and the like)
        let a = if conc == 0 { mk(dims, sym_vec(n, sym_val)) } else {
            let mut v = Vec::with_capacity(n);
            let mut e = 0;
            while e < n { v.push((((l * 3 + e * 2) % 5) as Float) - 2.0); e += 1; }
            mk(dims, v)
        };
        arrs.push(if tracked[l] { a.tracked() } else { a });
        logs.push(None);
        live.push(tracked[l]);
        l += 1;
    }
    let mut k = 0;
    while k < nodes.len() {
        let (op, i, j) = nodes[k];
        let mut log = None;
        let r = match op {
            G_ADD => &arrs[i] + &arrs[j],
            G_MUL => &arrs[i] * &arrs[j],
            G_SUB => &arrs[i] - &arrs[j],
            G_NEG => -&arrs[i],
            G_SCALE => &arrs[i] * 3.0,
            G_UMUL => {
                let (r, lg) = user_mul(&arrs[i], &arrs[j]);
                log = Some(lg);
                r
            }
            G_UNTRACK => arrs[i].clone().untracked(),
            G_RETRACK => {
                let h = arrs[i].clone().untracked();
                h.start_tracking();
                h
            }
            _ => arrs[i].clone(),
        };
        let lv = match op {
            G_NEG | G_SCALE | G_CLONE | G_RETRACK => live[i],
            G_UNTRACK => false,
            _ => live[i] || live[j],
        };
        arrs.push(r);
        logs.push(log);
        live.push(lv);
        k += 1;
    }
    Graph { arrs, logs, live }
}

/// forward-mode oracle: d node[root][e] / d leaf[l][e] for element e (all ops are element-wise)
pub(super) fn g_dual(g: &Graph, nl: usize, nodes: &[(u8, usize, usize)], l: usize, root: usize, e: usize) -> Float {
    let total = nl + nodes.len();
    let mut dot: Vec<Float> = Vec::with_capacity(total);
    let mut q = 0;
    while q < nl {
        dot.push(if q == l { 1.0 } else { 0.0 });
        q += 1;
    }
    let mut k = 0;
    while k < nodes.len() {
        let (op, i, j) = nodes[k];
        let vi = g.arrs[i].values[e];
        let vj = g.arrs[j].values[e];
        let d = match op {
            G_ADD => dot[i] + dot[j],
            G_MUL | G_UMUL => dot[i] * vj + vi * dot[j],
            G_SUB => dot[i] - dot[j],
            G_NEG => -dot[i],
            G_SCALE => 3.0 * dot[i],
            G_UNTRACK => 0.0, // nothing flows through an untracked intermediate
            _ => dot[i],
        };
        dot.push(d);
        k += 1;
    }
    dot[root]
}

/// d node[root] / d node[m] treating node m as an independent variable (adjoint of an interior node)
pub(super) fn g_dual_node(g: &Graph, nl: usize, nodes: &[(u8, usize, usize)], m: usize, root: usize, e: usize) -> Float {
    let total = nl + nodes.len();
    let mut dot: Vec<Float> = Vec::with_capacity(total);
    let mut q = 0;
    while q < total {
        if q < nl || q <= m {
            dot.push(if q == m { 1.0 } else { 0.0 });
        } else {
            let (op, i, j) = nodes[q - nl];
            let vi = g.arrs[i].values[e];
            let vj = g.arrs[j].values[e];
            let d = match op {
                G_ADD => dot[i] + dot[j],
                G_MUL | G_UMUL => dot[i] * vj + vi * dot[j],
                G_SUB => dot[i] - dot[j],
                G_NEG => -dot[i],
                G_SCALE => 3.0 * dot[i],
                G_UNTRACK => 0.0,
                _ => dot[i],
            };
            dot.push(d);
        }
        q += 1;
    }
    dot[root]
}

pub(super) fn g_all_clean(g: &Graph) -> bool {
    let mut k = 0;
    while k < g.arrs.len() {
        if !node_clean(&g.arrs[k]) {
            return false;
        }
        // also the handles stored inside the graph
        let mut c = 0;
        while c < g.arrs[k].children.len() {
            if !node_clean(&g.arrs[k].children[c]) {
                return false;
            }
            c += 1;
        }
        k += 1;
    }
    true
}

/// mode: 0 = one pass with a symbolic seed; 1 = one pass with the default seed (None);
///       2 = two passes (symbolic seed, then default seed) -> gradients add up (C10);
///       3 = pass with None, clear gradients, pass with explicit ones -> identical (C17 default seed, C10 clearing);
///       4 = pass from interior node `mid` first, then from the root -> sums (C10)
pub(super) fn graph_check(dims: &[usize], nl: usize, tracked: &[bool], nodes: &[(u8, usize, usize)], root: usize, mode: u8, mid: usize, conc: u8) {
    let n = numel(dims);
    let g = g_build(dims, nl, tracked, nodes, conc);
    let total = nl + nodes.len();
    // snapshots for the frame conditions
    let mut snaps: Vec<Snap> = Vec::with_capacity(total);
    let mut flags: Vec<bool> = Vec::with_capacity(total);
    let mut k = 0;
    while k < total {
        snaps.push(snap(&g.arrs[k]));
        flags.push(g.arrs[k].is_tracked.get());
        k += 1;
    }
    assert!(g_all_clean(&g), "precondition Clean(G) holds after construction");

    // conc 1: all-zero seed; conc 2: seed supported on the odd positions only (masked)
    let seed_vals = if conc == 0 { sym_vec(n, sym_val) } else {
        let mut v = Vec::with_capacity(n);
        let mut e = 0;
        while e < n { v.push(if conc == 2 && e % 2 == 1 { 2.0 } else { 0.0 }); e += 1; }
        v
    };
    let seed = mk(dims, seed_vals.clone());
    let ones = mk(dims, vec![1.0; n]);

    // ---- run the pass(es); `w1[e]`, `w2[e]` are the per-element seed weights of pass 1 / pass 2
    let mut w_root: Vec<Float> = vec![0.0; n];
    let mut w_mid: Vec<Float> = vec![0.0; n];
    let mut e = 0;
    match mode {
        0 => {
            g.arrs[root].backward(Some(seed));
            while e < n { w_root[e] = seed_vals[e]; e += 1; }
        }
        1 => {
            g.arrs[root].backward(None);
            while e < n { w_root[e] = 1.0; e += 1; }
        }
        2 => {
            g.arrs[root].backward(Some(seed));
            assert!(g_all_clean(&g), "C10 no residue between passes");
            g.arrs[root].backward(None);
            while e < n { w_root[e] = seed_vals[e] + 1.0; e += 1; }
        }
        3 => {
            g.arrs[root].backward(None);
            // remember the gradients of the default-seed pass, clear them, re-run with explicit ones
            let mut first: Vec<Option<Array>> = Vec::with_capacity(total);
            let mut q = 0;
            while q < total {
                // clone-like nodes share the gradient slot of their source: clear / compare through the source only
                let shares_slot = q >= nl && (nodes[q - nl].0 == G_CLONE || nodes[q - nl].0 == G_UNTRACK || nodes[q - nl].0 == G_RETRACK);
                first.push(if shares_slot { None } else { g.arrs[q].replace_gradient() });
                q += 1;
            }
            assert!(g_all_clean(&g), "C10 no residue between passes");
            g.arrs[root].backward(Some(ones));
            q = 0;
            while q < total {
                let shares_slot = q >= nl && (nodes[q - nl].0 == G_CLONE || nodes[q - nl].0 == G_UNTRACK || nodes[q - nl].0 == G_RETRACK);
                let now = if shares_slot { None } else { grad_of(&g.arrs[q]) };
                match (&first[q], &now) {
                    (None, None) => {}
                    (Some(x), Some(y)) => {
                        assert!(dims_eq(&x.dimensions, &y.dimensions), "C17 default seed = ones (dims)");
                        let mut z = 0;
                        while z < x.values.len() {
                            assert!(x.values[z].to_bits() == y.values[z].to_bits(), "C17 omitted seed gives identical gradients to a seed of ones");
                            z += 1;
                        }
                    }
                    _ => assert!(false, "C17 default seed = ones (presence)"),
                }
                q += 1;
            }
            while e < n { w_root[e] = 1.0; e += 1; }
        }
        _ => {
            g.arrs[mid].backward(Some(seed));
            assert!(g_all_clean(&g), "C10 no residue between passes");
            g.arrs[root].backward(None);
            while e < n { w_root[e] = 1.0; w_mid[e] = seed_vals[e]; e += 1; }
        }
    }

    // ---- postconditions
    assert!(g_all_clean(&g), "C10/C18 a finished pass leaves no consumer count and no pending delta");
    let mut q = 0;
    while q < total {
        assert!(unchanged(&g.arrs[q], &snaps[q]), "C08 values and dimensions unchanged by the pass");
        assert!(g.arrs[q].is_tracked.get() == flags[q], "C09 the pass leaves tracking flags as it found them");
        let mut c = 0;
        while c < g.arrs[q].children.len() {
            let ch = &g.arrs[q].children[c];
            assert!(ch.consumer_count.get() == 0, "C10 graph handles clean");
            c += 1;
        }
        q += 1;
    }
    // leaves
    let mut l = 0;
    while l < nl {
        let gr = grad_of(&g.arrs[l]);
        let reach_root = g.live[root];
        if tracked[l] {
            // expected = w_root * d root/d leaf + w_mid * d mid/d leaf
            let mut any = false;
            let mut exp: Vec<Float> = Vec::with_capacity(n);
            let mut e = 0;
            while e < n {
                let mut x = w_root[e] * g_dual(&g, nl, nodes, l, root, e);
                if mode == 4 {
                    x = x + w_mid[e] * g_dual(&g, nl, nodes, l, mid, e);
                }
                exp.push(x);
                e += 1;
            }
            match gr {
                Some(gv) => {
                    assert!(dims_eq(&gv.dimensions, dims), "C03 gradient has the array's dimensions");
                    assert!(!gv.is_tracked.get() && gv.children.is_empty() && gv.backward_op.is_none(),
                            "C09 gradients are plain untracked arrays");
                    let mut e = 0;
                    while e < n {
                        assert!(gv.values[e] == exp[e], "C01 gradient = seed-weighted sum over all paths of the partial derivatives");
                        e += 1;
                    }
                }
                None => {
                    // a tracked leaf that the root does not depend on (through tracked edges) gets nothing
                    let mut e = 0;
                    while e < n {
                        assert!(exp[e] == 0.0 && !g_reaches(nl, nodes, &g.live, l, root) && (mode != 4 || !g_reaches(nl, nodes, &g.live, l, mid)),
                                "C01 no path is dropped: a tracked leaf under the root has a gradient");
                        e += 1;
                    }
                }
            }
        } else {
            assert!(gr.is_none() || (l == root) || (mode == 4 && l == mid), "C09 untracked operands receive no gradient");
        }
        l += 1;
    }
    // interior nodes: adjoint of tracked nodes under the root, nothing for untracked ones
    let mut m = nl;
    while m < total {
        let gr = grad_of(&g.arrs[m]);
        let op = nodes[m - nl].0;
        if op == G_CLONE || op == G_RETRACK {
            // a clone shares the gradient slot of its source (C12)
            assert!(Rc::ptr_eq(&g.arrs[m].gradient, &g.arrs[nodes[m - nl].1].gradient), "C12 gradient visible through every clone");
        } else if !g.live[m] && m != root && !(mode == 4 && m == mid) {
            assert!(gr.is_none() || op == G_UNTRACK, "C09 nothing is stored for untracked intermediates");
        } else if let Some(gv) = gr {
            assert!(dims_eq(&gv.dimensions, dims), "C03 gradient has the array's dimensions");
            if g.live[m] && m <= root && op != G_UNTRACK {
                let mut e = 0;
                while e < n {
                    let mut x = w_root[e] * g_dual_node(&g, nl, nodes, m, root, e);
                    if mode == 4 && m <= mid {
                        x = x + w_mid[e] * g_dual_node(&g, nl, nodes, m, mid, e);
                    }
                    assert!(gv.values[e] == x, "C01/C11 an interior node's stored adjoint is the complete sum over its consumers");
                    e += 1;
                }
            }
        }
        m += 1;
    }
    // user-op nodes: invoked exactly once per pass that reaches them, with the complete adjoint
    let mut m = nl;
    while m < total {
        if let Some(lg) = &g.logs[m] {
            let passes_reaching = {
                let r1 = if g.live[m] && g_reaches(nl, nodes, &g.live, m, root) { 1 } else { 0 };
                match mode {
                    2 | 3 => 2 * r1,
                    4 => r1 + if g.live[m] && g_reaches(nl, nodes, &g.live, m, mid) { 1 } else { 0 },
                    _ => r1,
                }
            };
            assert!(lg.calls.get() == passes_reaching, "C11 each derivative function is invoked exactly once per pass");
            if mode == 0 && passes_reaching == 1 {
                let seen = lg.seen.borrow();
                let mut e = 0;
                while e < n {
                    assert!(seen[e] == w_root[e] * g_dual_node(&g, nl, nodes, m, root, e),
                            "C11 the derivative function receives the sum of all its consumers' contributions");
                    e += 1;
                }
            }
        }
        m += 1;
    }
}

/// does `root` depend on node `m` through tracked (live) edges only?
pub(super) fn g_reaches(nl: usize, nodes: &[(u8, usize, usize)], live: &[bool], m: usize, root: usize) -> bool {
    if m == root {
        return true;
    }
    if m > root {
        return false;
    }
    // dependency closure computed backwards from root
    let total = nl + nodes.len();
    let mut dep = vec![false; total];
    dep[root] = true;
    let mut q = root + 1;
    while q > nl {
        q -= 1;
        if dep[q] && live[q] {
            let (op, i, j) = nodes[q - nl];
            if op != G_UNTRACK {
                if live[i] { dep[i] = true; }
                let unary = op == G_NEG || op == G_SCALE || op == G_CLONE || op == G_RETRACK;
                if !unary && live[j] { dep[j] = true; }
            }
        }
    }
    dep[m]
}

macro_rules! graph_instance {
    ($name:ident, $unwind:expr, [$($d:expr),*], $nl:expr, [$($t:expr),*], [$(($op:expr, $i:expr, $j:expr)),*], $root:expr, $mode:expr, $mid:expr, $conc:expr) => {
        vk_harness!($name, $unwind, { graph_check(&[$($d),*], $nl, &[$($t),*], &[$(($op, $i, $j)),*], $root, $mode, $mid, $conc); });
    };
}
